"""C15 — library calls never modify caller-owned inputs (returns *or raises*).

For every sampled workload (entry point x argument kinds x options):
  1. fault-free execution behind the proxy backend; at *every* backend-call event the
     caller-owned arguments are compared with their pre-call snapshot (observation pass:
     finds windows in which a crash would expose a transient in-place modification);
  2. crash-point enumeration: the call is re-executed on fresh arguments with a fault
     raised instead of backend call k (MemoryError / LinAlgError / KeyboardInterrupt
     according to the kind of call; for simulator-supplied callbacks: raise or cancel),
     for every k (or a stated sample), always including every k flagged by step 1;
  3. after control returns to the caller - by return or by any exception - the
     arguments must equal the snapshot, modulo documented in-place parameters.
"""
import contextlib
import os
import re

import numpy as np

_DEVNULL = open(os.devnull, "w")

from . import catalog, proxy, snapshot
from .core import HarnessError, run_rng, stable_hash, digest_obj, Counter

PROP = "C15"
LEVEL = "fault_enumeration"

_IDX = re.compile(r"\[\d+\]")


WEIGHTS = {
    # share of workloads per entry point.  The iterative decompositions and estimators the property is
    # anchored in have by far the largest option spaces; cheap and option-rich ones get most.  Entry points
    # not listed here are small, cheap functions (a workload costs ~10 ms): they get DEFAULT_WEIGHT.
    "parafac": 10, "tucker": 8, "non_negative_parafac": 6, "partial_tucker": 6, "constrained_parafac": 6, "robust_pca": 6,
    "CP_PLSR": 6, "svd_interface": 6, "CP.fit_transform": 4, "randomised_parafac": 4, "parafac2": 4, "non_negative_tucker": 4,
    "CPRegressor": 4, "TuckerRegressor": 4, "tensor_ring_als": 4, "tensor_ring_als_sampled": 3, "non_negative_parafac_hals": 2,
    "non_negative_tucker_hals": 2, "hals_nnls": 8, "fista": 6, "admm": 6, "cp_to_tensor": 8, "cp_mode_dot": 6, "tucker_mode_dot": 6,
}  # fmt: skip


DEFAULT_WEIGHT = 8


def entries():
    out = []
    for e in catalog.ENTRIES.values():
        if "c15" in e["groups"]:
            out.extend([e] * WEIGHTS.get(e["name"], DEFAULT_WEIGHT))
    return out


def fingerprint(entry, path, kind, tags=()):
    fp = f"{entry}|{_IDX.sub('[*]', path)}|{kind}"
    for prefix, tag in tags:
        if path == prefix or path.startswith(prefix + "[") or path.startswith(prefix + "."):
            fp += "|" + tag
    return fp


class Cancel(Exception):
    pass


class WorkloadTimeout(BaseException):
    """Raised by the harness's interval timer when one execution runs away (e.g. an invalid rank makes
    the library loop forever).  The workload is then skipped and counted; it is never a verdict."""


def _on_alarm(signum, frame):
    raise WorkloadTimeout()


def make_callback(P):
    def cb(*a, **k):
        r = P.event("callback")
        if r == "cancel":
            return True
        return None

    return cb


def build(spec, P):
    e = catalog.ENTRIES[spec["entry"]]
    g = catalog.Choices(replay=spec["choices"], seed_value=spec.get("seed", 0), callback=make_callback(P) if e["cb"] else None, dtype=spec.get("dtype"))
    call = e["build"](g)
    call.setdefault("exempt", [])
    corrupt(call["kwargs"], spec.get("corrupt"))
    return call, g


CORRUPTIONS = ["mask_shape", "rank_zero", "rank_big", "rank_one_big", "fixed_oob", "init_short", "iter_neg", "tensor_1d"]


def corrupt(kw, how):
    """Turn a valid call into one the library rejects (or half-executes): calls that raise are in scope."""
    if not how:
        return
    if how == "mask_shape" and isinstance(kw.get("mask"), np.ndarray) and kw["mask"].ndim >= 1 and kw["mask"].shape[-1] > 1:
        kw["mask"] = np.ascontiguousarray(kw["mask"][..., :-1])
    elif how == "rank_zero" and isinstance(kw.get("rank"), int):
        kw["rank"] = 0
    elif how == "rank_big" and "rank" in kw:
        # larger than every mode size, but small enough not to exhaust memory (rank 50 on three modes made HALS allocate 65 GB)
        kw["rank"] = 7 if isinstance(kw["rank"], int) else [7 for _ in kw["rank"]] if isinstance(kw["rank"], (list, tuple)) else kw["rank"]
    elif how == "rank_one_big" and isinstance(kw.get("rank"), list) and len(kw["rank"]) >= 3:
        # one interior rank larger than the data can carry: the library has to truncate it somewhere
        kw["rank"] = list(kw["rank"])
        kw["rank"][len(kw["rank"]) // 2] = 9
    elif how == "fixed_oob" and isinstance(kw.get("fixed_modes"), list):
        kw["fixed_modes"] = list(kw["fixed_modes"]) + [7]
    elif how == "init_short" and isinstance(kw.get("init"), (tuple, list)) and len(kw["init"]) == 2 and isinstance(kw["init"][1], list) and len(kw["init"][1]) > 1:
        short = list(kw["init"][1][:-1])
        kw["init"] = (kw["init"][0], short) if isinstance(kw["init"], tuple) else [kw["init"][0], short]
    elif how == "iter_neg" and "n_iter_max" in kw:
        kw["n_iter_max"] = -1
    elif how == "tensor_1d":
        for k in ("tensor", "input_tensor", "X", "matrix"):
            if isinstance(kw.get(k), np.ndarray) and kw[k].ndim >= 2:
                kw[k] = kw[k].reshape(-1).copy()
                break


def snap_args(kwargs):
    out = {}
    for k in sorted(kwargs):
        snapshot.flatten(kwargs[k], k, out)
    return out


_TRACE_OK = {}


def _traced_file(fn):
    """Library source files whose executed lines are crash points (not tests, not the dispatch shims)."""
    ok = _TRACE_OK.get(fn)
    if ok is None:
        from . import core

        root = os.path.join(core.REPO, "tensorly") + os.sep
        ok = (
            fn.startswith(root)
            and (os.sep + "tests" + os.sep) not in fn
            and not fn.endswith(os.path.join("backend", "__init__.py"))
            and not fn.endswith(os.path.join("tenalg", "__init__.py"))
        )
        _TRACE_OK[fn] = ok
    return ok


def execute(spec, P, fault=None, observe=False, stride=1, line_fault=None, line_observe=False):
    """Run one call.  fault = None | {"event": k, "kind": ...} (backend-call crash point);
    line_fault = k raises a KeyboardInterrupt at the k-th executed source line of library code;
    line_observe compares the arguments with their pre-call state at every executed line.
    Returns dict(outcome, n_events, names, diffs, transient, fired, swallowed, n_lines, transient_lines)."""
    import sys
    import warnings

    call, g = build(spec, P)
    kwargs = call["kwargs"]
    exempt = call["exempt"]
    before = snap_args(kwargs)
    names = []
    transient = []
    state = {"fired": None, "exc": None}
    fk = fault["event"] if fault else -1
    fkind = fault["kind"] if fault else None

    def hook(n, name):
        if observe:
            names.append(name)
            if n % stride == 0 and snapshot.diff(before, snap_args(kwargs), exempt):
                transient.append(n)
        if n == fk:
            kind = fkind or proxy.fault_kind_for(name, n)
            state["fired"] = (n, name, kind)
            if kind == "cancel":
                return "cancel"
            exc = proxy.FAULT_EXC[kind](f"injected at event {n} ({name})")
            state["exc"] = exc
            raise exc
        return None

    lines = {"n": 0, "transient": [], "where": None}
    tracing = line_observe or line_fault is not None
    if tracing:
        watch = snapshot.FastWatch(kwargs) if line_observe else None
        sig0 = watch.sig() if watch else None

        def ltrace(frame, event, arg):
            if event == "line":
                lines["n"] += 1
                k = lines["n"]
                if watch is not None and watch.sig() != sig0:
                    lines["transient"].append(k)
                if k == line_fault:
                    state["fired"] = (k, "line:%s:%d" % (os.path.basename(frame.f_code.co_filename), frame.f_lineno), "KeyboardInterrupt@line")
                    exc = proxy.SimInterrupt(f"injected at executed line {k}")
                    state["exc"] = exc
                    raise exc
            return ltrace

        def gtrace(frame, event, arg):
            if event == "call" and _traced_file(frame.f_code.co_filename):
                return ltrace
            return None

    outcome = "returned"
    # the global NumPy RNG is part of the simulated environment: every execution of a
    # workload starts from the same global state, so entry points that (rightly or wrongly)
    # draw from it still replay exactly
    np.random.seed(20240915)
    import tensorly.tenalg as _ta

    _ta.set_backend(spec.get("tenalg", "core"))
    P.begin(hook)
    import signal

    limit = float(os.environ.get("VERIF_EXEC_LIMIT_S", "10"))
    old_handler = signal.signal(signal.SIGALRM, _on_alarm)
    try:
        with warnings.catch_warnings():
            warnings.simplefilter("ignore")
            with np.errstate(all="ignore"), contextlib.redirect_stdout(_DEVNULL):
                if tracing:
                    sys.settrace(gtrace)
                signal.setitimer(signal.ITIMER_REAL, limit)
                try:
                    call["fn"](**kwargs)
                finally:
                    signal.setitimer(signal.ITIMER_REAL, 0)
                    if tracing:
                        sys.settrace(None)
    except BaseException as ex:  # includes the injected KeyboardInterrupt
        if isinstance(ex, (HarnessError, WorkloadTimeout)):
            signal.signal(signal.SIGALRM, old_handler)
            P.end()
            _ta.set_backend("core")
            raise
        if ex is state["exc"]:
            outcome = "raised-injected"
        elif state["exc"] is not None:
            outcome = "raised-converted:" + type(ex).__name__
        else:
            outcome = "raised:" + type(ex).__name__
    finally:
        signal.signal(signal.SIGALRM, old_handler)
        n = P.end()
        _ta.set_backend("core")
    after = snap_args(kwargs)
    diffs = snapshot.diff(before, after, exempt)
    swallowed = state["exc"] is not None and outcome == "returned"
    return dict(outcome=outcome, n_events=n, names=names, diffs=diffs, transient=transient, fired=state["fired"], swallowed=swallowed, tags=list(g.fp_tags),
                n_lines=lines["n"], transient_lines=lines["transient"])


def crash_points(n, transient, rng, tier):
    """Which event indices to inject at.  Returns (sorted list, exhaustive?)."""
    cap_all = 120 if tier == "quick" else 1500
    if n <= cap_all:
        return list(range(1, n + 1)), True
    pts = set()
    # every window edge of the observation pass, then as many interior points as fit
    tr = sorted(transient)
    edges = [k for i, k in enumerate(tr) if i == 0 or tr[i - 1] != k - 1 or i + 1 == len(tr) or tr[i + 1] != k + 1]
    pts.update(edges[:60])
    if len(tr) > 0:
        pts.update(rng.sample(tr, min(len(tr), 40)))
    head = 20 if tier == "quick" else 200
    k = 30 if tier == "quick" else 600
    if n > 30000:  # very long calls (cost of one injected execution ~ the call itself): a thinner sample
        head, k = head // 4, k // 2
    elif n > 5000:
        head, k = head // 2, (k * 2) // 3
    pts.update(range(1, head + 1))
    pts.update(range(n - head + 1, n + 1))
    pts.update(rng.sample(range(1, n + 1), min(n, k)))
    return sorted(pts), False


def line_points(n, transient, rng, tier):
    """Executed-line indices at which to raise a KeyboardInterrupt."""
    if n <= 0:
        return []
    pts = set()
    tr = sorted(transient)
    edges = [k for i, k in enumerate(tr) if i == 0 or tr[i - 1] != k - 1 or i + 1 == len(tr) or tr[i + 1] != k + 1]
    pts.update(edges[:40])
    if tr:
        pts.update(rng.sample(tr, min(len(tr), 20)))
    k = 10 if tier == "quick" else 200
    pts.update(rng.sample(range(1, n + 1), min(n, k)))
    return sorted(pts)


def run_workload(spec, P, rng, tier, cnt):
    """Returns (violations [(fingerprint, text, replay-spec)], digest parts)."""
    viols = []
    n0 = execute(spec, P)["n_events"]
    stride = max(1, n0 // 4000)  # observation pass looks at every event unless the call is huge
    if stride > 1:
        cnt.inc("workloads_observed_with_stride")
    base = execute(spec, P, observe=True, stride=stride)
    if base["n_events"] != n0:
        raise HarnessError(f"{spec['entry']}: event count differs between two fault-free executions ({n0} vs {base['n_events']})")
    cnt.inc("executions", 2)
    cnt.inc("fault_free_runs", 2)
    cnt.inc("outcome_fault_free:" + base["outcome"].split(":")[0])
    n = base["n_events"]
    cnt.inc("backend_events", n)
    if base["transient"]:
        cnt.inc("probe:workloads_with_transient_argument_modification")
        cnt.inc("probe:events_inside_transient_window", len(base["transient"]))
    for path, kind in base["diffs"]:
        fp = fingerprint(spec["entry"], path, kind, base["tags"])
        viols.append((fp, f"{spec['entry']}: argument {path} {kind} after a fault-free call ({base['outcome']})", dict(spec, fault=None)))
    pts, exhaustive = crash_points(n, base["transient"], rng, tier)
    cnt.inc("workloads_exhaustive" if exhaustive else "workloads_sampled")
    outcomes = []
    seen_fp = {v[0] for v in viols}
    for k in pts:
        r = execute(spec, P, fault={"event": k, "kind": None})
        cnt.inc("executions")
        if r["fired"] is None:
            raise HarnessError(f"fault at event {k} of {spec['entry']} did not fire (n={n}): nondeterministic event stream")
        cnt.inc("crash_points")
        cnt.inc("fault:" + r["fired"][2])
        cnt.inc("fault_at:" + r["fired"][1])
        if r["swallowed"]:
            cnt.inc("probe:fault_swallowed_by_library_and_call_returned")
        if r["outcome"].startswith("raised-converted"):
            cnt.inc("probe:fault_converted_to_other_exception")
        if r["fired"][2] == "cancel":
            cnt.inc("probe:callback_cancelled_run")
        if k in base["transient"]:
            cnt.inc("probe:crash_inside_transient_window")
        outcomes.append((k, r["outcome"], len(r["diffs"])))
        for path, kind in r["diffs"]:
            fp = fingerprint(spec["entry"], path, kind, r["tags"])
            if fp in seen_fp:
                continue
            seen_fp.add(fp)
            viols.append(
                (fp, f"{spec['entry']}: argument {path} {kind} after fault {r['fired'][2]} at backend event {k} ({r['fired'][1]}); call {r['outcome']}",
                 dict(spec, fault={"event": k, "kind": r["fired"][2]}))
            )  # fmt: skip
    # ---- second crash-point space: every executed source line of library code (a KeyboardInterrupt
    # can arrive between any two lines, also where no backend call is made: operators, slicing, np.*)
    if n0 > (30000 if tier == "quick" else 300000):
        # line tracing costs ~10x: for very long calls only the backend-call crash points are used
        cnt.inc("workloads_without_line_level_pass")
        dg = digest_obj([spec["entry"], spec["choices"], spec.get("tenalg"), spec.get("dtype"), spec.get("corrupt"), n, base["names"], base["transient"],
                         base["outcome"], outcomes, "no-line-pass"])
        return viols, dg, n, len(pts)
    lbase = execute(spec, P, line_observe=True)
    cnt.inc("executions")
    cnt.inc("library_lines_executed", lbase["n_lines"])
    if lbase["transient_lines"]:
        cnt.inc("probe:workloads_with_transient_modification_at_line_level")
    lpts = line_points(lbase["n_lines"], lbase["transient_lines"], rng, tier)
    louts = []
    for k in lpts:
        r = execute(spec, P, line_fault=k)
        cnt.inc("executions")
        if r["fired"] is None:
            raise HarnessError(f"line fault {k} of {spec['entry']} did not fire (lines={lbase['n_lines']}): nondeterministic line stream")
        cnt.inc("line_crash_points")
        cnt.inc("fault:KeyboardInterrupt@line")
        if r["swallowed"]:
            cnt.inc("probe:fault_swallowed_by_library_and_call_returned")
        if k in lbase["transient_lines"]:
            cnt.inc("probe:crash_inside_transient_window")
        louts.append((k, r["outcome"], len(r["diffs"])))
        for path, kind in r["diffs"]:
            fp = fingerprint(spec["entry"], path, kind, r["tags"])
            if fp in seen_fp:
                continue
            seen_fp.add(fp)
            viols.append(
                (fp, f"{spec['entry']}: argument {path} {kind} after KeyboardInterrupt at executed library line {k} ({r['fired'][1]}); call {r['outcome']}",
                 dict(spec, fault={"line": k, "kind": "KeyboardInterrupt@line"}))
            )  # fmt: skip
    dg = digest_obj([spec["entry"], spec["choices"], spec.get("tenalg"), spec.get("dtype"), spec.get("corrupt"), n, base["names"], base["transient"], base["outcome"], outcomes,
                     lbase["n_lines"], lbase["transient_lines"], louts])
    return viols, dg, n, len(pts) + len(lpts)


def gen_spec(rng, r, ents):
    e = ents[r % len(ents)]
    g = catalog.Choices(rng=rng, seed_value=rng.randrange(3), callback=(lambda *a, **k: None) if e["cb"] else None)
    e["build"](g)  # only to record a choice sequence of the right length
    return {"entry": e["name"], "choices": list(g.rec), "seed": g.seed_value, "tenalg": "einsum" if rng.random() < 0.3 else "core",
            "corrupt": rng.choice(CORRUPTIONS) if rng.random() < 0.1 else None,
            "dtype": rng.choice(["float64"] * 16 + ["float32"] * 2 + ["int64", "complex128"])}


def worker(chunk):
    seed, lo, hi, want_samples = chunk
    import os

    tier = os.environ.get("VERIF_TIER_INTERNAL", "quick")
    P = proxy.get()
    ents = entries()
    cnt = Counter()
    distinct = set()
    viols = []
    per = {}
    samples = []
    for r in range(lo, hi):
        rng = run_rng(seed, PROP, r)
        spec = gen_spec(rng, r, ents)
        try:
            vs, dg, n, npts = run_workload(spec, P, rng, tier, cnt)
        except WorkloadTimeout:
            cnt.inc("runs")
            cnt.inc("workloads_skipped_runaway_execution")
            continue
        cnt.inc("runs")
        cnt.inc("entry:" + spec["entry"])
        distinct.add(stable_hash(spec["entry"], tuple(spec["choices"]), spec["seed"], spec["tenalg"], spec["dtype"], spec.get("corrupt")))
        cnt.inc("dtype:" + spec["dtype"])
        if spec.get("corrupt"):
            cnt.inc("probe:workload_made_invalid_on_purpose:" + spec["corrupt"])
        cnt.inc("tenalg:" + spec["tenalg"])
        for fp, text, rspec in vs:
            k = per.get(fp, 0)
            per[fp] = k + 1
            if k < 2:
                viols.append((r, fp, text, rspec))
        if vs:
            cnt.inc("violating_runs")
        if want_samples and len(samples) < want_samples:
            samples.append({"run": r, "workload": spec, "backend_events": n, "crash_points_injected": npts, "violations": [v[0] for v in vs]})
    return {"cnt": cnt, "distinct": distinct, "viols": viols, "samples": samples, "per_oracle": per}


def digests(seed, lo, hi):
    P = proxy.get()
    ents = entries()
    out = []
    for r in range(lo, hi):
        rng = run_rng(seed, PROP, r)
        spec = gen_spec(rng, r, ents)
        try:
            vs, dg, n, npts = run_workload(spec, P, rng, "quick", Counter())
        except WorkloadTimeout:
            out.append("runaway:")
            continue
        out.append(dg + ":" + ",".join(sorted(v[0] for v in vs)))
    return out


# ------------------------------------------------------------------ minimise / replay


def exec_fault(spec, P, fault, observe=False):
    """Execute with a replay-file fault description (backend event, executed line, or none)."""
    if fault and "line" in fault:
        return execute(spec, P, line_fault=fault["line"], observe=observe)
    return execute(spec, P, fault=fault, observe=observe)


def _reproduces(spec, fp, P):
    """Find a fault (or none) under which `spec` shows fingerprint fp. Returns spec+fault or None."""
    try:
        base = execute(spec, P, observe=True)
    except HarnessError:
        return None
    for path, kind in base["diffs"]:
        if fingerprint(spec["entry"], path, kind, base["tags"]) == fp:
            return dict(spec, fault=None)
    cands = []
    f0 = spec.get("fault")
    if f0 and "event" in f0:
        cands.append(f0["event"])
    cands += [k for k in base["transient"] if k not in cands][:80]
    if not cands and base["n_events"] <= 200 and f0 and "event" in f0:
        cands = list(range(1, base["n_events"] + 1))
    for k in cands:
        if k < 1 or k > base["n_events"]:
            continue
        r = execute(spec, P, fault={"event": k, "kind": None})
        for path, kind in r["diffs"]:
            if fingerprint(spec["entry"], path, kind, r["tags"]) == fp:
                return dict(spec, fault={"event": k, "kind": r["fired"][2]})
    # executed-line crash points
    lbase = execute(spec, P, line_observe=True)
    lc = []
    if f0 and "line" in f0:
        lc.append(f0["line"])
    lc += [k for k in lbase["transient_lines"] if k not in lc][:60]
    for k in lc:
        if k < 1 or k > lbase["n_lines"]:
            continue
        r = execute(spec, P, line_fault=k)
        for path, kind in r["diffs"]:
            if fingerprint(spec["entry"], path, kind, r["tags"]) == fp:
                return dict(spec, fault={"line": k, "kind": "KeyboardInterrupt@line"})
    return None


def minimise(spec, fp):
    P = proxy.get()
    cur = _reproduces(spec, fp, P)
    if cur is None:
        raise HarnessError("violation does not reproduce before minimisation")
    changed = True
    import time

    t_end = time.time() + float(os.environ.get("VERIF_MIN_BUDGET_S", "90"))
    while changed and time.time() < t_end:
        changed = False
        ch = cur["choices"]
        # truncate the tail, then zero individual choices
        cands = []
        for cut in range(len(ch)):
            if any(ch[cut:]):
                cands.append(ch[:cut] + [0] * (len(ch) - cut))
        for i in range(len(ch)):
            if ch[i]:
                cands.append(ch[:i] + [0] + ch[i + 1 :])
                if ch[i] > 1:
                    cands.append(ch[:i] + [ch[i] - 1] + ch[i + 1 :])
        for key, simple in (("corrupt", None), ("dtype", "float64")):
            if cur.get(key, simple) != simple:
                try:
                    got = _reproduces(dict(cur, **{key: simple}), fp, P)
                except Exception:
                    got = None
                if got is not None:
                    cur = got
                    changed = True
        if changed:
            continue
        if cur.get("tenalg", "core") != "core":
            try:
                got = _reproduces(dict(cur, tenalg="core"), fp, P)
            except Exception:
                got = None
            if got is not None:
                cur = got
                changed = True
                continue
        for c in cands:
            if time.time() > t_end:
                break
            try:
                got = _reproduces(dict(cur, choices=c), fp, P)
            except Exception:
                got = None
            if got is not None:
                cur = got
                changed = True
                break
    return cur


def describe(spec, P):
    call, g = build(spec, P)
    fl = snap_args(call["kwargs"])
    out = {}
    for p, leaf in fl.items():
        if leaf[0] == "arr":
            out[p] = f"array{leaf[2]} {leaf[1]}"
        else:
            out[p] = repr(leaf[1:])[:80]
    return out


def make_replay(spec, fp, seed, run_idx):
    P = proxy.get()
    r = exec_fault(spec, P, spec.get("fault"), observe=True)
    fps = sorted(fingerprint(spec["entry"], p, k, r["tags"]) for p, k in r["diffs"])
    return {
        "property": PROP,
        "verif_seed": seed,
        "run": run_idx,
        "oracle": fp,
        "violation": f"{spec['entry']}: caller-owned argument(s) changed: {r['diffs']} ; call {r['outcome']}"
        + (f" after injected {spec['fault']['kind']} at {'executed library line' if 'line' in spec['fault'] else 'backend event'} "
           f"{spec['fault'].get('line', spec['fault'].get('event'))} ({r['fired'][1] if r['fired'] else '?'})" if spec.get("fault") else " (fault-free)"),
        "entry": spec["entry"],
        "choices": spec["choices"],
        "seed": spec.get("seed", 0),
        "tenalg": spec.get("tenalg", "core"),
        "dtype": spec.get("dtype", "float64"),
        "corrupt": spec.get("corrupt"),
        "fault": spec.get("fault"),
        "faults": [spec["fault"]] if spec.get("fault") else [],
        "schedule": [],
        "arguments": describe(spec, P),
        "fingerprints": fps,
        "all_oracles": fps,
        "backend_events": r["n_events"],
        "transient_window": r["transient"][:50],
        "event_log_digest": digest_obj([r["names"], r["outcome"], r["diffs"]]),
    }


def replay_file(path):
    import json

    with open(path) as f:
        rp = json.load(f)
    P = proxy.get()
    spec = {"entry": rp["entry"], "choices": rp["choices"], "seed": rp["seed"], "fault": rp["fault"], "tenalg": rp.get("tenalg", "core"), "dtype": rp.get("dtype", "float64"), "corrupt": rp.get("corrupt")}
    r = exec_fault(spec, P, rp["fault"], observe=True)
    fps = sorted(fingerprint(spec["entry"], p, k, r["tags"]) for p, k in r["diffs"])
    dg = digest_obj([r["names"], r["outcome"], [list(d) for d in r["diffs"]]])
    dg2 = digest_obj([r["names"], r["outcome"], r["diffs"]])
    same = rp["oracle"] in fps and rp["event_log_digest"] in (dg, dg2)
    return same, f"replayed fingerprints={fps} expected={rp['oracle']} digest_match={rp['event_log_digest'] in (dg, dg2)} outcome={r['outcome']} diffs={r['diffs']}"


# ------------------------------------------------------------------ driver interface

QUICK_RUNS = 14000
CHUNK = 4
CHUNK_TIMEOUT = 900
THOROUGH_S = 1200
DET_RUNS = 20
SETS = ("distinct",)
ASSUMPTIONS = [
    "fault points are (a) the backend calls made by library code through tl.* dispatch and simulator-supplied callbacks, (b) executed source lines of the library's own files (KeyboardInterrupt raised from a sys.settrace line event); interrupts inside one line or inside C code are out of reach",
    "argument values are compared by value, bit for bit, including the bytes of the ultimate base buffer of every array view; object identity is not compared",
    "documented in-place parameters are exempt: cp_mode_dot/tucker_mode_dot(copy=False), the V start matrix of hals_nnls",
    "workloads are a seeded sample over the catalogue x argument kinds x options; per workload the backend-call crash-point space is enumerated completely when it has <= 120 (quick) / 1500 (thorough) events, otherwise sampled (head, tail, seeded, plus every point flagged by the observation pass); source-line crash points are always a sample (window edges + interior sample + 10/200 seeded lines)",
    "the per-line observation uses adler32 checksums; a collision can only hide a transient window from the observation pass, never change a verdict (verdicts use full byte-level diffs)",
    "C15 has no schedule in its quantifier: concurrent sharing of inputs between threads is deliberately not explored",
]
COMPONENTS = {
    "real": ["every catalogue entry point of tensorly (decompositions, solvers, proximal operators, tenalg, factorised-tensor functions, metrics, preprocessing, regressors)", "stock NumPy backend (does all numerical work)"],
    "stub": [],
    "simulated": ["backend-call failures (MemoryError, LinAlgError, KeyboardInterrupt) raised in place of backend call k via a proxy backend installed with tl.set_backend(instance)", "user callbacks (raise / cancel)"],
}


def coverage(agg, wall):
    cnt = agg["cnt"]
    ex = cnt.get("executions", 0)
    return {
        "evaluations": ex,
        "distinct_nontrivial": len(agg["distinct"]),
        "rule": "one evaluation = one execution of a public entry point (fault-free or with one injected fault). "
        "distinct_nontrivial counts distinct workloads (entry, recorded choice sequence, seed) - each is executed once fault-free "
        "and once per enumerated crash point; a workload is non-trivial because every one makes at least one library call on generated arguments",
        "workloads": cnt.get("runs", 0),
        "crash_points_injected": cnt.get("crash_points", 0) + cnt.get("line_crash_points", 0),
        "backend_call_crash_points": cnt.get("crash_points", 0),
        "source_line_crash_points": cnt.get("line_crash_points", 0),
        "library_lines_executed_fault_free": cnt.get("library_lines_executed", 0),
        "workloads_crash_points_exhaustive": cnt.get("workloads_exhaustive", 0),
        "workloads_crash_points_sampled": cnt.get("workloads_sampled", 0),
        "backend_events_fault_free": cnt.get("backend_events", 0),
        "simulated_time_note": "no clock in the system; logical time = backend-call events",
        "runs_per_hour": int(cnt.get("runs", 0) / max(wall, 1e-9) * 3600),
        "executions_per_hour": int(ex / max(wall, 1e-9) * 3600),
        "faults_fired": {k[len("fault:") :]: v for k, v in sorted(cnt.items()) if k.startswith("fault:")},
        "faults_by_backend_function": {k[len("fault_at:") :]: v for k, v in sorted(cnt.items()) if k.startswith("fault_at:")},
        "fault_free_outcomes": {k.split(":", 1)[1]: v for k, v in sorted(cnt.items()) if k.startswith("outcome_fault_free:")},
        "rare_condition_probes": {k[len("probe:") :]: v for k, v in sorted(cnt.items()) if k.startswith("probe:")},
        "entries": {k[len("entry:") :]: v for k, v in sorted(cnt.items()) if k.startswith("entry:")},
        "dtype_of_workloads": {k[len("dtype:") :]: v for k, v in sorted(cnt.items()) if k.startswith("dtype:")},
        "tenalg_backend_of_workloads": {k[len("tenalg:") :]: v for k, v in sorted(cnt.items()) if k.startswith("tenalg:")},
        "violating_workloads": cnt.get("violating_runs", 0),
        "workloads_skipped_runaway_execution": cnt.get("workloads_skipped_runaway_execution", 0),
        "exhaustive": False,
    }
