"""Deep byte-level snapshots of arbitrary call arguments / results.

flatten(obj) -> dict path -> leaf, where a leaf is a small tuple that compares by
value, bit for bit (NaN-safe: arrays are compared through their bytes).  An array
contributes its dtype, shape and bytes, and the bytes of its ultimate `.base` buffer
(so a write through, or next to, a view is seen).  Containers contribute type and
length; objects with __dict__ contribute their class name and attributes.
"""
import hashlib

import numpy as np


def _base_of(a):
    b = a
    while isinstance(getattr(b, "base", None), np.ndarray):
        b = b.base
    return b if b is not a else None


def flatten(obj, path="", out=None, seen=None, with_base=True):
    if out is None:
        out = {}
    if seen is None:
        seen = {}
    if isinstance(obj, np.ndarray):
        out[path] = ("arr", obj.dtype.str, obj.shape, obj.tobytes())
        if with_base:
            b = _base_of(obj)
            if b is not None:
                out[path + "<base>"] = ("arr", b.dtype.str, b.shape, b.tobytes())
        return out
    if obj is None or isinstance(obj, (bool, int, float, complex, str, bytes, np.generic)):
        out[path] = ("val", type(obj).__name__, repr(obj))
        return out
    oid = id(obj)
    if oid in seen:
        out[path] = ("ref", seen[oid])
        return out
    seen[oid] = path
    if isinstance(obj, (list, tuple)):
        out[path] = ("seq", type(obj).__name__, len(obj))
        for i, x in enumerate(obj):
            flatten(x, f"{path}[{i}]", out, seen, with_base)
        return out
    if isinstance(obj, dict):
        keys = sorted(obj, key=repr)
        out[path] = ("dict", len(obj), tuple(repr(k) for k in keys))
        for k in keys:
            flatten(obj[k], f"{path}[{k!r}]", out, seen, with_base)
        return out
    if isinstance(obj, (set, frozenset)):
        out[path] = ("set", tuple(sorted(repr(x) for x in obj)))
        return out
    if isinstance(obj, np.random.RandomState):
        st = obj.get_state()
        out[path] = ("rng", st[0], st[1].tobytes(), st[2], st[3], st[4])
        return out
    if isinstance(obj, slice):
        out[path] = ("val", "slice", repr(obj))
        return out
    if callable(obj) and not hasattr(obj, "__dict__"):
        out[path] = ("callable", getattr(obj, "__name__", "?"))
        return out
    d = getattr(obj, "__dict__", None)
    if d is not None and not callable(obj):
        out[path] = ("obj", type(obj).__name__, tuple(sorted(d)))
        for k in sorted(d):
            flatten(d[k], f"{path}.{k}", out, seen, with_base)
        return out
    if callable(obj):
        out[path] = ("callable", getattr(obj, "__name__", "?"))
        return out
    out[path] = ("val", type(obj).__name__, repr(obj))
    return out


def diff(before, after, exempt=()):
    """List of (path, kind) where after differs from before, ignoring exempt path prefixes."""
    out = []

    def ex(p):
        return any(p == e or p.startswith(e + "[") or p.startswith(e + ".") or p.startswith(e + "<") for e in exempt)

    for p in sorted(set(before) | set(after)):
        if ex(p):
            continue
        a, b = before.get(p), after.get(p)
        if a == b:
            continue
        if p.endswith("<base>"):
            # the base buffer is only meaningful while the view itself is the same array:
            # if the element was replaced (reported under its own path) its base is noise
            q = p[: -len("<base>")]
            if a is None or b is None or a[1:3] != b[1:3] or before.get(q) != after.get(q):
                continue
        if a is None:
            kind = "appeared"
        elif b is None:
            kind = "disappeared"
        elif a[0] != b[0]:
            kind = "type-changed"
        elif a[0] == "arr":
            if a[1] != b[1]:
                kind = "dtype-changed"
            elif a[2] != b[2]:
                kind = "shape-changed"
            else:
                kind = "bytes-changed"
        elif a[0] in ("seq", "dict", "set"):
            kind = "container-changed"
        else:
            kind = "value-changed"
        out.append((p, kind))
    # report the shallowest paths only: a changed list length explains its children
    keep = []
    for p, k in out:
        if not any(p != q and (p.startswith(q + "[") or p.startswith(q + ".")) and kq == "container-changed" for q, kq in out):
            keep.append((p, k))
    return keep


def digest(obj, with_base=False):
    """Stable hex digest of a (result) structure, bit-exact on arrays."""
    h = hashlib.blake2b(digest_size=16)
    fl = flatten(obj, with_base=with_base)
    for p in sorted(fl):
        h.update(p.encode())
        for part in fl[p]:
            if isinstance(part, bytes):
                h.update(part)
            else:
                h.update(repr(part).encode())
        h.update(b"|")
    return h.hexdigest()


def fast_sig(obj, with_base=True):
    """Cheaper comparable signature for per-event observation (tuple of leaves)."""
    fl = flatten(obj, with_base=with_base)
    return tuple(sorted(fl.items()))


class FastWatch:
    """Cheap change detector for per-source-line observation.

    Collects every array (and its ultimate base buffer) and every container reachable from
    the arguments once; sig() is a tuple of adler32 checksums of the array buffers and of
    (length, element identities) of the containers.  A changed sig() is then confirmed with
    the full flatten/diff.  Checksum collisions can only hide a change from the *observation*
    pass (which merely directs fault injection); the verdict itself always uses full diffs.
    """

    def __init__(self, obj):
        self.arrays = []
        self.containers = []
        self.objects = []
        seen = set()

        def walk(o):
            if isinstance(o, np.ndarray):
                if id(o) not in seen:
                    seen.add(id(o))
                    self.arrays.append(o)
                    b = _base_of(o)
                    if b is not None and id(b) not in seen:
                        seen.add(id(b))
                        self.arrays.append(b)
                return
            if o is None or isinstance(o, (bool, int, float, complex, str, bytes, np.generic, slice)):
                return
            if id(o) in seen:
                return
            seen.add(id(o))
            if isinstance(o, (list, tuple)):
                self.containers.append(o)
                for x in o:
                    walk(x)
            elif isinstance(o, dict):
                self.containers.append(o)
                for x in o.values():
                    walk(x)
            elif isinstance(o, np.random.RandomState) or callable(o):
                return
            elif hasattr(o, "__dict__"):
                self.objects.append(o)
                for x in vars(o).values():
                    walk(x)

        walk(obj)

    def sig(self):
        import zlib

        out = []
        for a in self.arrays:
            try:
                out.append(zlib.adler32(a if a.flags.c_contiguous else a.tobytes()))
            except (ValueError, TypeError):
                out.append(zlib.adler32(a.tobytes()))
            out.append(a.shape)
        for c in self.containers:
            if isinstance(c, dict):
                out.append(tuple((repr(k), id(v)) if isinstance(v, (np.ndarray, list, tuple, dict)) or hasattr(v, "__dict__") else (repr(k), repr(v)) for k, v in c.items()))
            else:
                out.append(tuple(id(x) if isinstance(x, (np.ndarray, list, tuple, dict)) or hasattr(x, "__dict__") else repr(x) for x in c))
        for o in self.objects:
            out.append(tuple((k, id(v)) if isinstance(v, (np.ndarray, list, tuple, dict)) else (k, repr(v)) for k, v in sorted(vars(o).items())))
        return tuple(out)
