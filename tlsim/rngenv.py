"""The process-global NumPy RNG (np.random.mtrand._rand) as simulator-owned environment.

The simulator digests its state, and perturbs it between and *during* library calls with
the operations a co-resident user of np.random performs.  The simulator itself never
draws decisions from it.
"""
import hashlib

import numpy as np


def state_digest():
    st = np.random.get_state()
    h = hashlib.blake2b(digest_size=12)
    h.update(st[1].tobytes())
    h.update(repr((st[0], st[2], st[3], st[4])).encode())
    return h.hexdigest()


PERTURB_KINDS = ["seed", "rand", "randn", "random_sample", "randint", "shuffle", "set_state", "lib_none"]

_SAVED = {}


def reset(seed):
    """Start of a run: the global state becomes a function of the run."""
    np.random.seed(seed % (2**32))
    _SAVED["s0"] = np.random.get_state()


def apply(kind, arg):
    """Apply one perturbation.  (kind, arg) is JSON-able so it can live in a replay file."""
    if kind == "seed":
        np.random.seed(arg)
    elif kind == "rand":
        np.random.rand(arg)
    elif kind == "randn":
        np.random.randn(arg)
    elif kind == "random_sample":
        np.random.random_sample(arg)
    elif kind == "randint":
        np.random.randint(0, 100, size=arg)
    elif kind == "shuffle":
        np.random.shuffle(list(range(arg + 2)))
    elif kind == "set_state":
        np.random.set_state(_SAVED["s0"])
    elif kind == "lib_none":
        # a legitimate global-RNG user inside the library: random_state=None
        import tensorly.random as R

        R.random_cp((3, 3, 2), 2, random_state=None)
    else:
        raise ValueError(kind)


def gen_perturb(rng):
    kind = rng.choice(PERTURB_KINDS)
    if kind == "seed":
        return [kind, rng.choice([0, 1, 7, 12345])]
    if kind in ("set_state", "lib_none"):
        return [kind, 0]
    return [kind, rng.choice([1, 2, 3, 7])]
