"""C17 — backend selection behaves as a per-thread stack over a shared default.

Real: tensorly.backend.BackendManager, tensorly.tenalg.TenalgBackendManager (class state,
threading.local, contextmanager generator, dispatch closures), the core/einsum tenalg
backends, the NumPy backend.  Stub: computational backends "jax", "cupy", "pytorch" are
NumpyBackend subclasses registered through the real Backend.__init_subclass__ registry.

A run = a small program per sim-thread + a seeded schedule at source-line granularity
inside the two manager files.  The recorded history is checked against model17.
"""
import inspect
import os
import sys

import numpy as np

from . import model17
from .core import HarnessError, run_rng, stable_hash, digest_obj, Counter
from .sched import Scheduler, Sequential, RandomWalk, PCT, Replay

PROP = "C17"

_ENV = {}


def env():
    """Import tensorly, register stubs, locate traced files.  Once per process."""
    if _ENV:
        return _ENV
    from .core import use_repo

    tl = use_repo()
    import tensorly.backend as tlb
    import tensorly.tenalg as tlt
    from tensorly.backend.core import Backend
    from tensorly.backend.numpy_backend import NumpyBackend
    import tensorly.tenalg.core_tenalg  # noqa  (imported before any sim-thread exists)
    import tensorly.tenalg.einsum_tenalg  # noqa

    BM = tlb.BackendManager
    TM = tlt.TenalgBackendManager
    stubs = {}
    funcs = frozenset(BM._functions)
    attrs = frozenset(BM._attributes) - {"backend_name"}
    import threading

    executed = threading.local()  # per sim-thread: tags of the stub/instance backends whose dispatched methods ran

    def _tagging_getattribute(self, name):
        v = object.__getattribute__(self, name)
        if name in funcs and callable(v):
            tag = object.__getattribute__(self, "tag")

            def recorded(*a, **k):
                executed.__dict__.setdefault("tags", []).append(tag)
                return v(*a, **k)

            return recorded
        if name in attrs:  # a dispatched *attribute* (tl.float64, tl.pi, ...) served by this backend object
            executed.__dict__.setdefault("tags", []).append(object.__getattribute__(self, "tag"))
        return v

    for nm in ("jax", "cupy", "pytorch"):
        if nm in Backend._available_backends:
            raise HarnessError(f"real backend {nm} registered; stubs would shadow it")
        # a stub computes with NumPy, but every dispatched method it executes records the stub's tag
        cls = type("Stub_" + nm, (NumpyBackend,), {"__getattribute__": _tagging_getattribute, "tag": nm}, backend_name=nm)
        stubs[nm] = cls
    stock = Backend._available_backends["numpy"]
    tagged_numpy = type("TaggedNumpy", (NumpyBackend,), {"__getattribute__": _tagging_getattribute, "tag": "numpy@1"}, backend_name="numpy")
    Backend._available_backends["numpy"] = stock  # the registry keeps the stock class under "numpy"
    # real locks on the managers (none in the unchanged tree) would hang a baton-passing simulation:
    # replace them by cooperative stand-ins
    import _thread
    import threading
    from .sched import CoopLock

    lock_types = (type(threading.Lock()), type(threading.RLock()))
    n_locks = 0
    for owner in (BM, TM, tlb, tlt, sys.modules.get("tensorly.backend.core"), sys.modules.get("tensorly.tenalg.base_tenalg")):
        if owner is None:
            continue
        for k, v in list(vars(owner).items()):
            if isinstance(v, lock_types):
                try:
                    setattr(owner, k, CoopLock(v))
                    n_locks += 1
                except (AttributeError, TypeError):
                    pass
    be_file = inspect.getsourcefile(BM)
    ta_file = inspect.getsourcefile(TM)
    _ENV.update(
        tl=tl,
        tlb=tlb,
        tlt=tlt,
        BM=BM,
        TM=TM,
        NumpyBackend=NumpyBackend,
        stubs=stubs,
        tagged_numpy=tagged_numpy,
        executed=executed,
        traced=((be_file, "be"), (ta_file, "ta")),
        probe_dirs={os.sep + "core_tenalg" + os.sep: "core", os.sep + "einsum_tenalg" + os.sep: "einsum"},
        A=np.arange(4.0).reshape(2, 2),
        B=np.eye(2),
    )
    return _ENV


BE_VALID = ["numpy", "jax", "cupy", "pytorch"]
BE_INST = ["numpy@1", "jax@1"]
# rejected selections: unknown name / known name whose import fails here / a name that belongs to the OTHER manager
BE_BAD = ["bogus", "tensorflow", "core", "einsum"]
TA_VALID = ["core", "einsum"]
TA_BAD = ["bogus", "numpy", "jax"]
EXC_KINDS = ["Exception", "BaseException", "KeyboardInterrupt", "StopIteration", "GeneratorExit", "SystemExit", "Falsy", "Chained"]


# dispatched functions used as probes: index 0 is used half of the time (so that per-function faults such
# as a stale per-name cache see the same function twice), the others cover the rest of the dispatch table
BE_PROBES = [
    lambda tl, A, B: tl.trace(B),
    lambda tl, A, B: tl.eye(2),
    lambda tl, A, B: tl.tensor([1.0, 2.0]),
    lambda tl, A, B: tl.shape(A),
    lambda tl, A, B: tl.dot(A, B),
    lambda tl, A, B: tl.reshape(A, (4,)),
    lambda tl, A, B: tl.norm(A),
    lambda tl, A, B: tl.sum(A),
    lambda tl, A, B: tl.transpose(A),
    lambda tl, A, B: tl.zeros((2,)),
    lambda tl, A, B: tl.copy(A),
    lambda tl, A, B: tl.abs(A),
    # dispatched attributes (dynamically_dispatched_class_attribute on the manager module; the copies that
    # `import tensorly as tl` binds at import time - tl.float64, tl.pi - are static values, not dispatch)
    lambda tl, A, B: tl.backend.float64,
    lambda tl, A, B: tl.backend.pi,
    lambda tl, A, B: tl.backend.int32,
    lambda tl, A, B: tl.backend.nan,
]
TA_PROBES = [
    lambda ta, A, B: ta.kronecker([A, B]),
    lambda ta, A, B: ta.inner(A, B),
    lambda ta, A, B: ta.khatri_rao([A, B]),
    lambda ta, A, B: ta.mode_dot(A, B, 0),
    lambda ta, A, B: ta.outer([A[0], B[0]]),
    lambda ta, A, B: ta.multi_mode_dot(A, [B, B]),
]


# dispatched calls whose arguments the backend rejects
BE_FAILS = [
    lambda tl, A, B, Z: tl.reshape(A, (3,)),
    lambda tl, A, B, Z: tl.dot(A, Z),
    lambda tl, A, B, Z: tl.transpose(A, (0, 1, 2)),
    lambda tl, A, B, Z: tl.solve(A, Z[0]),
]
TA_FAILS = [
    lambda ta, A, B, Z: ta.inner(A, Z),
    lambda ta, A, B, Z: ta.mode_dot(A, Z, 0),
    lambda ta, A, B, Z: ta.khatri_rao([A, Z[:2, :]]),
    lambda ta, A, B, Z: ta.multi_mode_dot(A, [Z, Z]),
]


def pick_probe(rng):
    return 0 if rng.random() < 0.5 else rng.randrange(1, 16)


class SimExc(Exception):
    pass


class SimBaseExc(BaseException):
    pass


class SimFalsyExc(Exception):
    """An exception object that is falsy (`if exc:` style tests in an exit path misfire)."""

    def __bool__(self):
        return False

    def __len__(self):
        return 0


def make_exc(kind):
    if kind == "Chained":  # raised while another exception is being handled: carries a __context__
        try:
            raise SimExc("first")
        except SimExc:
            try:
                raise SimExc("sim")
            except SimExc as second:
                return second
    e = {
        "SystemExit": SystemExit,
        "Falsy": SimFalsyExc,
        "Exception": SimExc,
        "BaseException": SimBaseExc,
        "KeyboardInterrupt": KeyboardInterrupt,
        "StopIteration": StopIteration,
        "GeneratorExit": GeneratorExit,
    }[kind]("sim")
    return e


# ------------------------------------------------------------------ generation


def gen_config(rng):
    cfg = {}
    thorough = os.environ.get("VERIF_TIER_INTERNAL", "quick") == "thorough"
    cfg["actors"] = rng.choice([1, 2, 2, 3, 3, 4] if thorough else [1, 2, 2, 2, 3, 3])
    cfg["observer"] = rng.random() < 0.6
    cfg["mgrs"] = rng.choice([["be"], ["ta"], ["be", "ta"], ["be", "ta"]])
    cfg["D0"] = {"be": rng.choice(["numpy", "numpy", "jax"]), "ta": rng.choice(["core", "core", "einsum"])}
    cfg["warm"] = rng.random() < 0.5
    cfg["p_local"] = rng.choice([0.2, 0.5, 0.8])
    cfg["p_bad"] = rng.choice([0.0, 0.1, 0.25])
    cfg["p_inst"] = rng.choice([0.0, 0.15, 0.4])
    cfg["p_cur"] = rng.choice([0.0, 0.1, 0.25])  # select "whatever current_backend() returns" (an instance)
    cfg["p_raise"] = rng.choice([0.0, 0.15, 0.3])
    cfg["max_ops"] = rng.choice([2, 4, 6, 8, 10] if thorough else [2, 3, 4, 6])
    cfg["max_depth"] = 4 if thorough else 3
    cfg["w_with"] = rng.choice([1, 3, 5])
    # environment fault: the process runs with warnings turned into errors (python -W error), so that a warning
    # issued in the middle of a selection becomes an exception at that point
    cfg["warn_error"] = rng.random() < 0.1
    strat = rng.random()
    if strat < 0.1:
        cfg["strategy"] = ["sequential"]
    elif strat < 0.7:
        cfg["strategy"] = ["random", rng.choice([0.02, 0.1, 0.3, 0.6])]
    else:
        cfg["strategy"] = ["pct", rng.choice([1, 2, 3])]
    return cfg


def _pick_backend(rng, cfg, mgr):
    if rng.random() < cfg["p_bad"]:
        return rng.choice(BE_BAD if mgr == "be" else TA_BAD)
    if rng.random() < cfg.get("p_cur", 0.0):
        return "@cur"
    if mgr == "be":
        if rng.random() < cfg["p_inst"]:
            return rng.choice(BE_INST)
        return rng.choice(BE_VALID)
    return rng.choice(TA_VALID)


def _gen_ops(rng, cfg, depth, budget):
    ops = []
    n = rng.randint(1, max(1, budget[0])) if depth == 0 else rng.randint(0, 2)
    for _ in range(n):
        if budget[0] <= 0:
            break
        budget[0] -= 1
        mgr = rng.choice(cfg["mgrs"])
        r = rng.random() * (4 + cfg["w_with"])
        if r < 1.5:
            ops.append({"op": "set", "mgr": mgr, "b": _pick_backend(rng, cfg, mgr), "local": rng.random() < cfg["p_local"]})
        elif r < 2.5:
            ops.append({"op": "get", "mgr": mgr})
        elif r < 3.5:
            if rng.random() < 0.12:
                # a dispatched call that *raises* (arguments the backend rejects): not an observation, but a fault
                # in the middle of a dispatch - whatever the dispatcher was doing must not outlive it
                ops.append({"op": "fail", "mgr": mgr, "fn": rng.randrange(4)})
            else:
                ops.append({"op": "probe", "mgr": mgr, "fn": pick_probe(rng)})
        elif r < 3.7:
            ops.append({"op": "attr", "mgr": "be"} if "be" in cfg["mgrs"] else {"op": "get", "mgr": mgr})
        elif r < 4.0:
            # a child thread created here (plain, or - like asyncio.to_thread - running in a copy of the creating
            # thread's contextvars context), which only observes and is joined before the creator continues
            ops.append({"op": "spawn", "ctx": rng.random() < 0.5,
                        "ops": [{"op": rng.choice(["get", "probe"]), "mgr": m, "fn": pick_probe(rng)} for m in cfg["mgrs"]]})
        else:
            if depth >= cfg.get("max_depth", 3):
                ops.append({"op": "get", "mgr": mgr})
                continue
            body = _gen_ops(rng, cfg, depth + 1, budget)
            if rng.random() < cfg["p_raise"]:
                body.append({"op": "raise", "exc": rng.choice(EXC_KINDS), "levels": rng.randint(1, depth + 1)})
            w = {"op": "with", "mgr": mgr, "b": _pick_backend(rng, cfg, mgr), "local": rng.random() < cfg["p_local"], "body": body}
            if rng.random() < 0.2:
                # the context object is created ahead of time (before the sibling operations that precede it run)
                # and entered later: "previous backend" must be the one at entry, not the one at creation
                w["early"] = True
            ops.append(w)
    return ops


def final_ops(cfg):
    out = []
    for m in cfg["mgrs"]:
        out.append({"op": "get", "mgr": m})
        out.append({"op": "probe", "mgr": m})
    return out


def gen_record(rng):
    cfg = gen_config(rng)
    threads = []
    for _ in range(cfg["actors"]):
        ops = _gen_ops(rng, cfg, 0, [cfg["max_ops"]])
        threads.append({"role": "actor", "ops": ops + final_ops(cfg)})
    if cfg["observer"]:
        ops = []
        for _ in range(rng.randint(1, 4)):
            m = rng.choice(cfg["mgrs"])
            ops.append({"op": rng.choice(["get", "probe"]), "mgr": m, "fn": pick_probe(rng)})
        threads.append({"role": "observer", "ops": ops + final_ops(cfg)})
    threads.append({"role": "fresh", "gated": True, "ops": final_ops(cfg)})
    rec = {"property": PROP, "config": cfg, "threads": threads}
    number_spawns(rec)
    return rec


def _walk_ops(ops):
    for o in ops:
        yield o
        if o["op"] == "with":
            yield from _walk_ops(o["body"])


def number_spawns(rec):
    """Every spawned child is a thread of its own for the model: give it an id after the program threads."""
    n = len(rec["threads"])
    for th in rec["threads"]:
        for o in _walk_ops(th["ops"]):
            if o["op"] == "spawn":
                o["tid"] = n
                n += 1
    return n


def make_chooser(rng, rec):
    s = rec["config"]["strategy"]
    n = len(rec["threads"])
    if s[0] == "sequential":
        return Sequential()
    if s[0] == "random":
        return RandomWalk(rng, s[1])
    return PCT(rng, n, s[1], 60 * n)


# ------------------------------------------------------------------ execution


def count_ops(ops):
    n = 0
    for o in ops:
        n += 1
        if o["op"] == "with":
            n += count_ops(o["body"])
    return n


class Run:
    def __init__(self, rec, chooser, log_lines=True):
        self.E = env()
        self.rec = rec
        self.cfg = rec["config"]
        self.sched = Scheduler(chooser, self.E["traced"], self.E["probe_dirs"], log_lines=log_lines)
        self.history = []
        self.direct = []  # direct violations (seq, oracle, text)
        self.insts = {}

    # ---- backend values
    def backend_arg(self, mgr, b):
        if "@" in b:
            return self.insts[b]
        return b

    def reset(self):
        """Start-of-run state: shared defaults D0, name->instance caches cold or warm.

        Uses the public API only, from a short-lived helper thread (so that the controller thread never
        acquires a selection of its own); the one internal it touches, the `_loaded_backends` cache, is
        emptied best-effort to exercise the cold loading path and is left alone if it is not a dict."""
        import threading

        E = self.E
        BM, TM = E["BM"], E["TM"]
        err = []
        from .sched import CoopLock

        for l in CoopLock.ALL:  # normally done (and reported) by check_locks at the end of the run that leaked it
            if l.leaked():
                l.renew()

        def do():
            try:
                for M in (BM, TM):
                    c = getattr(M, "_loaded_backends", None)
                    if isinstance(c, dict):
                        c.clear()
                if self.cfg["warm"]:
                    try:
                        for nm in BE_VALID:
                            BM.load_backend(nm)
                        for nm in TA_VALID:
                            TM.load_backend(nm)
                    except BaseException as e:  # noqa  (incl. a lock left held by an earlier run)
                        self.direct.append((0, "blocked-forever" if type(e).__name__ == "SimDeadlock" else "be.select-valid-raised",
                                            f"loading a valid backend at the start of the run failed: {type(e).__name__}: {e}"))
                from .sched import SimDeadlock

                for mgr, mod in (("be", E["tl"]), ("ta", E["tlt"])):
                    try:
                        mod.set_backend(self.cfg["D0"][mgr])
                    except SimDeadlock as e:
                        self.direct.append((0, "blocked-forever", f"set_backend({self.cfg['D0'][mgr]!r}) at the start of the run can never complete: {e}"))
                    except Exception as e:
                        # a *valid* name rejected at the start of a run: the library kept state from an earlier
                        # run of this process (chunks start from a clean child, so this replays as a prefix)
                        self.direct.append((0, f"{mgr}.select-valid-raised",
                                            f"set_backend({self.cfg['D0'][mgr]!r}) at the start of the run raised {type(e).__name__}: {e}"))
            except BaseException as e:  # noqa
                err.append(e)

        th = threading.Thread(target=do, name="sim-reset")
        th.start()
        th.join()
        if err:
            raise HarnessError(f"reset failed: {err[0]!r}") from err[0]
        n1 = E["tagged_numpy"]()
        j1 = E["stubs"]["jax"]()
        j1.tag = "jax@1"
        self.insts = {"numpy@1": n1, "jax@1": j1}

    # ---- history
    def invoke(self, t, op, **kw):
        if hasattr(t, "sem"):  # spawned children run atomically inside their creator's turn
            self.sched.yield_point(("inv", op))
        h = dict(kw)
        h.update(t=t.id, op=op, inv=self.sched.stamp(), ret=None, out=None)
        self.history.append(h)
        return h

    def ret(self, h, out):
        h["out"] = out
        h["ret"] = self.sched.stamp()

    def violate(self, oracle, text):
        self.direct.append((self.sched.seq, oracle, text))

    # ---- ops
    def mgr_mod(self, mgr):
        return self.E["tl"] if mgr == "be" else self.E["tlt"]

    def is_bad(self, mgr, b):
        return b in (BE_BAD if mgr == "be" else TA_BAD)

    def run_ops(self, t, ops, depth):
        prebuilt = {}
        for op in ops:
            if op["op"] == "with" and op.get("early") and op["b"] != "@cur" and not self.is_bad(op["mgr"], op["b"]):
                prebuilt[id(op)] = self.mgr_mod(op["mgr"]).backend_context(self.backend_arg(op["mgr"], op["b"]), local_threadsafe=op["local"])
        for op in ops:
            k = op["op"]
            if k == "get":
                h = self.invoke(t, "get", mgr=op["mgr"])
                try:
                    out = self.mgr_mod(op["mgr"]).get_backend()
                except Exception as e:  # an observation that raises is an observation (it will not match the model)
                    out = "raised:" + type(e).__name__
                self.ret(h, out)
            elif k == "attr":
                h = self.invoke(t, "attr", mgr="be")
                try:
                    out = self.E["tl"].backend_name
                except Exception as e:
                    out = "raised:" + type(e).__name__
                self.ret(h, out)
            elif k == "fail":
                import numpy as _np

                Z = _np.zeros((3, 3))
                try:
                    if op["mgr"] == "be":
                        BE_FAILS[op.get("fn", 0) % len(BE_FAILS)](self.E["tl"], self.E["A"], self.E["B"], Z)
                    else:
                        TA_FAILS[op.get("fn", 0) % len(TA_FAILS)](self.E["tlt"], self.E["A"], self.E["B"], Z)
                except Exception:  # the expected outcome; a call that happens to succeed is no observation either
                    self.cnt_fail = getattr(self, "cnt_fail", 0) + 1
            elif k == "probe":
                # fn 0/1: two different dispatched functions per manager, so that a per-function
                # dispatch fault (stale per-name cache, static dispatch of a subset) is observable
                fn = op.get("fn", 0)
                h = self.invoke(t, "probe", mgr=op["mgr"], fn=fn)
                A, B, tl_, ta_ = self.E["A"], self.E["B"], self.E["tl"], self.E["tlt"]
                if op["mgr"] == "be":
                    ex = self.E["executed"].__dict__.setdefault("tags", [])
                    del ex[:]
                    try:
                        BE_PROBES[fn % len(BE_PROBES)](tl_, A, B)
                        out = ex[0] if ex else "numpy"
                    except Exception as e:
                        out = "raised:" + type(e).__name__
                    self.ret(h, out)
                else:
                    del t.probe_hits[:]
                    try:
                        TA_PROBES[fn % len(TA_PROBES)](ta_, A, B)
                        hits = t.probe_hits
                        out = hits[0] if hits else "none"
                    except Exception as e:
                        out = "raised:" + type(e).__name__
                    self.ret(h, out)
            elif k == "spawn":
                self.do_spawn(t, op)
            elif k == "set":
                self.do_set(t, op)
            elif k == "with":
                self.do_with(t, op, depth, prebuilt.get(id(op)))
            elif k == "raise":
                e = make_exc(op["exc"])
                e.sim_levels = op["levels"]
                raise e
            else:
                raise HarnessError("bad op " + k)

    def do_spawn(self, t, op):
        """Create a child OS thread that observes and is joined; the creator keeps the baton meanwhile."""
        import contextvars
        import threading

        child = type("Child", (), {})()
        child.id = op["tid"]
        child.probe_hits = []
        child.local = {}
        err = []

        dirs = self.E["probe_dirs"]

        def child_trace(frame, event, arg):  # records which tenalg implementation runs; never yields
            if event == "call":
                fn = frame.f_code.co_filename
                for d, name in dirs.items():
                    if d in fn:
                        child.probe_hits.append(name)
                        break
            return None

        def body():
            import sys

            saved_cur = self.sched.cur
            self.sched.cur = child  # observations are attributed to the child; no pre-emption inside
            sys.settrace(child_trace)
            try:
                self.run_ops(child, op["ops"], 0)
            except BaseException as e:  # noqa
                err.append(e)
            finally:
                sys.settrace(None)
                self.sched.cur = saved_cur

        target = body
        if op.get("ctx"):
            ctx = contextvars.copy_context()  # the creating thread's context, as asyncio.to_thread does
            target = lambda: ctx.run(body)
        self.sched.yield_point(("spawn",))
        th = threading.Thread(target=target, name=f"sim-child-{child.id}")
        th.start()
        th.join(60)
        if th.is_alive() or err:
            raise HarnessError(f"spawned thread failed: {err[:1]!r}")

    def tag_of(self, mgr, inst):
        if mgr == "be":
            for k, v in self.insts.items():
                if v is inst:
                    return k
            return getattr(inst, "tag", None) or inst.backend_name
        return inst.backend_name

    def resolve_cur(self, t, mgr):
        """`current_backend()` as an observation of its own, then used as an instance argument."""
        h = self.invoke(t, "cur", mgr=mgr)
        inst = (self.E["BM"] if mgr == "be" else self.E["TM"]).current_backend()
        try:
            tag = self.tag_of(mgr, inst)
        except Exception as e:
            tag = "raised:" + type(e).__name__
        self.ret(h, tag)
        return tag, inst

    def do_set(self, t, op):
        mgr, b = op["mgr"], op["b"]
        arg = None
        if b == "@cur":
            b, arg = self.resolve_cur(t, mgr)
        h = self.invoke(t, "set", mgr=mgr, b=b, local=op["local"])
        try:
            self.mgr_mod(mgr).set_backend(arg if arg is not None else self.backend_arg(mgr, b), local_threadsafe=op["local"])
        except Exception as e:
            if not self.is_bad(mgr, b):
                self.violate(f"{mgr}.select-valid-raised", f"set_backend({b!r}) raised {type(e).__name__}: {e}")
            self.ret(h, "rejected")
        else:
            if self.is_bad(mgr, b):
                self.violate(f"{mgr}.unknown-accepted", f"set_backend({b!r}) did not raise")
            self.ret(h, "ok")

    def do_with(self, t, op, depth, prebuilt=None):
        mgr, b = op["mgr"], op["b"]
        mod = self.mgr_mod(mgr)
        arg = None
        if b == "@cur":
            b, arg = self.resolve_cur(t, mgr)
        h_enter = self.invoke(t, "enter", mgr=mgr, b=b, local=op["local"])
        entered = False
        unwind = None
        h_exit = None
        try:
            with (prebuilt if prebuilt is not None else mod.backend_context(arg if arg is not None else self.backend_arg(mgr, b), local_threadsafe=op["local"])):
                entered = True
                if self.is_bad(mgr, b):
                    self.violate(f"{mgr}.unknown-accepted", f"backend_context({b!r}) entered")
                self.ret(h_enter, "ok")
                try:
                    self.run_ops(t, op["body"], depth + 1)
                except BaseException as e:
                    if not hasattr(e, "sim_levels"):
                        raise
                    unwind = e
                h_exit = self.invoke(t, "exit", mgr=mgr, exc=type(unwind).__name__ if unwind else None)
                if unwind is not None:
                    raise unwind
        except BaseException as e:
            if isinstance(e, HarnessError) or type(e).__name__ == "SimDeadlock":
                raise
            if not entered:
                if not self.is_bad(mgr, b):
                    self.violate(f"{mgr}.select-valid-raised", f"backend_context({b!r}) entry raised {type(e).__name__}: {e}")
                self.ret(h_enter, "rejected")
                return
            if h_exit is None:
                raise HarnessError(f"unexpected exception in with-body: {e!r}") from e
            if e is not unwind:
                self.violate(
                    f"{mgr}.exit-raised",
                    f"leaving backend_context({b!r}, local_threadsafe={op['local']}) raised {type(e).__name__}: {e}",
                )
        else:
            if unwind is not None:
                self.violate(f"{mgr}.exit-swallowed", f"exception {type(unwind).__name__} swallowed by backend_context exit")
        self.ret(h_exit, "ok")
        if unwind is not None:
            unwind.sim_levels -= 1
            if unwind.sim_levels > 0 and depth > 0:
                raise unwind

    def thread_fn(self, spec):
        def fn(t):
            from .sched import SimDeadlock

            try:
                self.run_ops(t, spec["ops"], 0)
            except SimDeadlock as e:
                self.violate("blocked-forever", f"a selection or query can never complete: {e}")
                for h in self.history:  # the operation in flight never returns
                    if h["ret"] is None:
                        h["out"] = "blocked"
                        h["ret"] = self.sched.stamp()
            except BaseException as e:
                if hasattr(e, "sim_levels"):
                    return  # unwound past the top of the program: swallowed by the harness
                raise

        return fn

    def check_locks(self):
        """Every thread of the run has ended.  A lock of the managers that is still held can never be released:
        confirm through the public API that the next selection would block forever, report it in *this* run
        and give the process a fresh lock so that later runs of the chunk start clean."""
        import threading

        from .sched import CoopLock, SimDeadlock

        held = [l for l in CoopLock.ALL if l.leaked()]
        if not held:
            return
        out = []

        def probe():
            for mgr, mod in (("be", self.E["tl"]), ("ta", self.E["tlt"])):
                try:
                    mod.set_backend("numpy" if mgr == "be" else "core", local_threadsafe=True)
                except SimDeadlock as e:
                    out.append((mgr, str(e)))
                except BaseException:  # noqa  (anything else is the business of the run's own oracles)
                    pass

        th = threading.Thread(target=probe, name="sim-lockprobe")
        th.start()
        th.join()
        for mgr, msg in out:
            self.direct.append((self.sched.stamp(), "blocked-forever",
                                f"after every thread of the run ended, {mgr} set_backend(<valid>, local_threadsafe=True) from a new thread can never complete: {msg}"))
        for l in held:
            l.renew()

    def execute(self):
        import warnings

        self.reset()
        for spec in self.rec["threads"]:
            self.sched.add_thread(self.thread_fn(spec), gated=spec.get("gated", False))
        with warnings.catch_warnings():  # process-global filter, installed by the controller around the whole run
            if self.cfg.get("warn_error"):
                warnings.simplefilter("error")
            self.sched.run()
        self.check_locks()
        for h in self.history:
            if h["ret"] is None:
                raise HarnessError("operation never returned: %r" % (h,))
        return self


# ------------------------------------------------------------------ oracle


def judge(run):
    """Returns dict(oracle=None|id, text, lin=[Result per mgr])."""
    nthreads = max([len(run.rec["threads"])] + [h["t"] + 1 for h in run.history])
    verdicts = []
    for seq, oracle, text in run.direct:
        verdicts.append((seq, oracle, text))
    lin = {}
    for mgr in ("be", "ta"):
        hist = [h for h in run.history if h["mgr"] == mgr]
        if not hist:
            continue
        res = model17.check(hist, nthreads, run.cfg["D0"][mgr])
        lin[mgr] = res
        if res.ok or res.inconclusive:
            continue
        if res.failing is None:
            verdicts.append((10**9, f"{mgr}.not-linearizable", "no linearisation of the history is allowed by the model"))
            continue
        f = hist[res.failing]
        selected_before = any(
            h["t"] == f["t"] and h["op"] in ("set", "enter") and h["out"] == "ok" and h["inv"] < f["inv"] for h in hist
        )
        role = "own" if selected_before else "observer"
        if f["op"] in ("get", "probe", "attr", "cur"):
            oracle = f"{mgr}.{role}-{f['op']}-wrong"
            text = (
                f"thread {f['t']} ({'has selected before' if selected_before else 'never selected'}) "
                f"{f['op']} returned {f['out']!r}; model allows {res.allowed}"
            )
        else:
            oracle = f"{mgr}.{f['op']}-impossible"
            text = f"thread {f['t']} op {f['op']} cannot be linearised"
        verdicts.append((f["ret"], oracle, text))
    if not verdicts:
        return {"oracle": None, "text": "", "lin": lin}
    verdicts.sort(key=lambda v: v[0])
    return {"oracle": verdicts[0][1], "text": verdicts[0][2], "lin": lin, "all": [v[1] for v in verdicts]}


def run_record(rec, chooser=None, log_lines=True):
    if chooser is None:
        chooser = Replay(rec.get("schedule", []))
    run = Run(rec, chooser, log_lines=log_lines).execute()
    v = judge(run)
    return run, v


def log_digest(run):
    return digest_obj([run.sched.log, [(h["t"], h["op"], h["mgr"], h["inv"], h["ret"], h["out"]) for h in run.history]])


# ------------------------------------------------------------------ coverage probes


def coverage_of(run, v, cnt):
    E = run.E
    fmap = run.sched.line_names
    for (short, ln), n in run.sched.line_hits.items():
        cnt.inc("switch_in:" + short + "." + fmap.get((short, ln), "?"), n)
    cnt.inc("yield_points", run.sched.yields)
    cnt.inc("switches", run.sched.nswitch)
    cnt.inc("ops", len(run.history))
    hist = run.history
    for h in hist:
        cnt.inc("op:" + h["mgr"] + "." + h["op"] + ":" + str(h["out"] if h["op"] in ("set", "enter") else ""))
        if h["op"] == "exit" and h.get("exc"):
            cnt.inc("fault:exception_exit:" + h["exc"])
        if h["op"] in ("set", "enter") and h["out"] == "rejected":
            cnt.inc("fault:rejected_selection:" + h["op"])
    glob = [h for h in hist if h["op"] in ("set", "enter") and h["out"] == "ok" and not h["local"]]
    for i, a in enumerate(glob):
        for b in glob[i + 1 :]:
            if a["t"] != b["t"] and a["mgr"] == b["mgr"] and a["inv"] < b["ret"] and b["inv"] < a["ret"]:
                cnt.inc("probe:overlapping_global_selections")
                break
    for mgr, res in v["lin"].items():
        cnt.inc("lin_nodes", res.nodes)
        if res.inconclusive:
            cnt.inc("lin_inconclusive")
    return cnt


def static_probes(rec, cnt):
    """Probes that depend only on the program."""

    def walk(ops, depth, stack):
        for o in ops:
            if o["op"] == "with":
                if depth >= 1:
                    cnt.inc("probe:nested_context_depth>=2")
                if o["b"] in BE_BAD + TA_BAD and depth >= 1:
                    cnt.inc("probe:unknown_at_nested_context_entry")
                walk(o["body"], depth + 1, stack + [o])
            elif o["op"] == "raise":
                if o["levels"] >= 2 and depth >= 2:
                    cnt.inc("probe:exception_unwinds_>=2_contexts")
                if o.get("exc") in ("SystemExit", "Falsy", "Chained", "GeneratorExit", "StopIteration"):
                    cnt.inc("probe:unusual_exception_type_leaves_context")
            elif o["op"] == "fail":
                cnt.inc("probe:dispatched_call_raised")

    for th in rec["threads"]:
        walk(th["ops"], 0, [])
        seen_local_set = False
        for o in th["ops"]:
            if o["op"] == "set" and o["local"] and o["b"] not in BE_BAD + TA_BAD:
                seen_local_set = True
            if o["op"] == "with" and o["local"] and seen_local_set:
                cnt.inc("probe:local_context_in_thread_with_private_selection")


def program_key(rec):
    return stable_hash(digest_obj([rec["config"]["D0"], rec["config"]["warm"], rec["threads"]]))


# ------------------------------------------------------------------ minimisation


def _try_schedules(rec, oracle, schedules):
    """Return rec (with realised schedule) if some schedule reproduces `oracle`."""
    for sch in schedules:
        r = dict(rec)
        if sch == "sequential":
            ch = Sequential()
        elif isinstance(sch, tuple) and sch[0] == "seed":
            rng = run_rng(sch[1], "C17-min", 0)
            ch = RandomWalk(rng, sch[2])
        else:
            ch = Replay(sch)
        try:
            run, v = run_record(r, ch, log_lines=False)
        except HarnessError:
            continue
        if v["oracle"] == oracle:
            r["schedule"] = [list(s) for s in run.sched.switches]
            return r
    return None


def minimise(rec, oracle):
    import copy
    from .minimise import greedy, tree_variants

    extra = ["sequential"] + [("seed", s, p) for s in range(6) for p in (0.1, 0.4)]

    def test(cand):
        return _try_schedules(cand, oracle, [cand.get("schedule", [])] + extra)

    def cands(r):
        th = r["threads"]
        # drop whole threads
        for i in range(len(th)):
            if len(th) > 1:
                c = copy.deepcopy(r)
                del c["threads"][i]
                c["schedule"] = []
                yield c
        for i, t in enumerate(th):
            for ops in tree_variants(t["ops"]):
                c = copy.deepcopy(r)
                c["threads"][i]["ops"] = ops
                yield c
        if not r["config"]["warm"]:
            c = copy.deepcopy(r)
            c["config"]["warm"] = True
            yield c
        for m, d in (("be", "numpy"), ("ta", "core")):
            if r["config"]["D0"][m] != d:
                c = copy.deepcopy(r)
                c["config"]["D0"][m] = d
                yield c

    rec, tests = greedy(rec, cands, test)

    # schedule: drop switch pairs while the same oracle keeps failing
    def test_s(cand):
        return _try_schedules(cand, oracle, [cand.get("schedule", [])])

    changed = True
    while changed and rec.get("schedule"):
        changed = False
        for i in range(len(rec["schedule"])):
            c = dict(rec)
            c["schedule"] = rec["schedule"][:i] + rec["schedule"][i + 1 :]
            got = test_s(c)
            if got and len(got["schedule"]) < len(rec["schedule"]):
                rec = got
                changed = True
                break
    return rec


def make_replay(rec, oracle, seed, run_idx):
    run, v = run_record(rec, Replay(rec.get("schedule", [])))
    out = {
        "property": PROP,
        "verif_seed": seed,
        "run": run_idx,
        "oracle": v["oracle"],
        "violation": v["text"],
        "all_oracles": v.get("all", []),
        "config": rec["config"],
        "threads": rec["threads"],
        "schedule": [list(s) for s in run.sched.switches],
        "faults": _fault_list(rec),
        "history": run.history,
        "event_log_digest": log_digest(run),
    }
    return out


def _fault_list(rec):
    out = []

    def walk(ops, tid):
        for o in ops:
            if o["op"] in ("set", "with") and o["b"] in BE_BAD + TA_BAD:
                out.append({"thread": tid, "kind": "rejected-selection", "backend": o["b"], "at": o["op"]})
            if o["op"] == "raise":
                out.append({"thread": tid, "kind": "exception-exit", "exc": o["exc"], "levels": o["levels"]})
            if o["op"] == "with":
                walk(o["body"], tid)

    for i, t in enumerate(rec["threads"]):
        walk(t["ops"], i)
    return out


def replay_file(path):
    """Execute a replay file exactly; returns (reproduced: bool, message)."""
    import json

    with open(path) as f:
        rp = json.load(f)
    rec = {"property": PROP, "config": rp["config"], "threads": rp["threads"], "schedule": rp["schedule"]}
    run, v = run_record(rec, Replay(rp["schedule"]))
    dg = log_digest(run)
    same = v["oracle"] == rp["oracle"] and dg == rp["event_log_digest"]
    msg = f"replayed oracle={v['oracle']} expected={rp['oracle']} digest_match={dg == rp['event_log_digest']} :: {v['text']}"
    return (v["oracle"] is not None and same), msg


# ------------------------------------------------------------------ batch worker


def worker(chunk):
    seed, lo, hi, want_samples = chunk
    env()
    cnt = Counter()
    progs = set()
    inter = set()
    states = set()
    viols = []
    per_oracle = {}
    samples = []
    for r in range(lo, hi):
        rng = run_rng(seed, PROP, r)
        rec = gen_record(rng)
        ch = make_chooser(rng, rec)
        run, v = run_record(rec, ch, log_lines=False)
        cnt.inc("runs")
        cnt.inc("strategy:" + rec["config"]["strategy"][0])
        cnt.inc("threads:%d" % len(rec["threads"]))
        static_probes(rec, cnt)
        coverage_of(run, v, cnt)
        pk = program_key(rec)
        progs.add(pk)
        if run.sched.nswitch > 0:
            inter.add(stable_hash(pk, tuple(run.sched.switches)))
        for mgr, res in v["lin"].items():
            for s in res.states:
                states.add(stable_hash(mgr, s))
        if v["oracle"]:
            cnt.inc("violating_runs")
            k = per_oracle.get(v["oracle"], 0)
            per_oracle[v["oracle"]] = k + 1
            if k < 2:
                rec2 = dict(rec)
                rec2["schedule"] = [list(s) for s in run.sched.switches]
                viols.append((r, v["oracle"], v["text"], rec2))
        if want_samples and len(samples) < want_samples:
            samples.append(
                {
                    "run": r,
                    "config": rec["config"],
                    "threads": rec["threads"],
                    "schedule": [list(s) for s in run.sched.switches],
                    "history": [
                        {k: h[k] for k in ("t", "mgr", "op", "inv", "ret", "out", "b", "local") if k in h} for h in run.history
                    ],
                    "verdict": v["oracle"] or "linearizable",
                }
            )
    return {"cnt": cnt, "progs": progs, "inter": inter, "states": states, "viols": viols, "samples": samples, "per_oracle": per_oracle}


def digests(seed, lo, hi):
    env()
    out = []
    for r in range(lo, hi):
        rng = run_rng(seed, PROP, r)
        rec = gen_record(rng)
        ch = make_chooser(rng, rec)
        run, v = run_record(rec, ch)
        out.append(log_digest(run) + ":" + str(v["oracle"]))
    return out


# ------------------------------------------------------------------ driver interface

LEVEL = "exploration"
QUICK_RUNS = 40000
CHUNK = 250
CHUNK_TIMEOUT = 600
THOROUGH_S = 1200
DET_RUNS = 60
DET_STRICT = False  # a library whose behaviour depends on OS thread identifiers (seeded change c17i) differs between two
# processes by nature: the self-test mismatch must then be explained by a violation found in the batch, else exit 2
SETS = ("progs", "inter", "states")
ASSUMPTIONS = [
    "pre-emption granularity is one source line of tensorly/backend/__init__.py and tensorly/tenalg/__init__.py (sys.settrace line events); races inside one line or inside C code are not explored",
    "computational backends jax/cupy/pytorch are NumpyBackend stubs registered through the real registry; the claim is about the selection machinery, not about those libraries",
    "the reference model accepts every behaviour the property is silent about (shared default after a *global* context exit; pin-or-follow of a never-selected thread after a context; atomicity of context entry)",
    "seeded sampling of programs and schedules, not enumeration: a clean batch is evidence, not proof",
]
COMPONENTS = {
    "real": [
        "tensorly.backend.BackendManager (set_backend, load_backend, backend_context, get_backend, current_backend, dispatch closures, dispatched attributes)",
        "tensorly.tenalg.TenalgBackendManager and the core/einsum tenalg backends",
        "tensorly NumPy backend",
        "threading.local on real OS threads, contextlib.contextmanager",
    ],
    "stub": ["computational backends 'jax', 'cupy', 'pytorch' (NumpyBackend subclasses with a tagged trace())"],
    "simulated": ["thread scheduling (baton passing, seeded choice at every yield point)"],
}


def coverage(agg, wall):
    cnt = agg["cnt"]
    runs = cnt.get("runs", 0)
    faults = {k[len("fault:") :]: v for k, v in cnt.items() if k.startswith("fault:")}
    faults["preemption_between_manager_source_lines"] = sum(v for k, v in cnt.items() if k.startswith("switch_in:"))
    return {
        "evaluations": runs,
        "distinct_nontrivial": len(agg["inter"]),
        "rule": "one evaluation = one simulated run (2-5 sim-threads, a generated program each, one seeded schedule). "
        "distinct_nontrivial counts distinct (program, realised switch sequence) pairs among runs with at least one "
        "context switch between sim-threads before the last thread finished; hashing is blake2b over the JSON program and the sparse switch list",
        "distinct_programs": len(agg["progs"]),
        "distinct_model_states": len(agg["states"]),
        "runs_per_hour": int(runs / max(wall, 1e-9) * 3600),
        "simulated_steps": cnt.get("yield_points", 0),
        "simulated_time_note": "the system has no clock; logical time = scheduler yield points",
        "context_switches": cnt.get("switches", 0),
        "operations": cnt.get("ops", 0),
        "faults_fired": faults,
        "switch_sites": {k[len("switch_in:") :]: v for k, v in sorted(cnt.items()) if k.startswith("switch_in:")},
        "rare_condition_probes": {k[len("probe:") :]: v for k, v in sorted(cnt.items()) if k.startswith("probe:")},
        "swarm_cells": {k: v for k, v in sorted(cnt.items()) if k.startswith(("strategy:", "threads:"))},
        "op_mix": {k[3:]: v for k, v in sorted(cnt.items()) if k.startswith("op:")},
        "linearizability": {"search_nodes": cnt.get("lin_nodes", 0), "inconclusive_histories": cnt.get("lin_inconclusive", 0)},
        "violating_runs": cnt.get("violating_runs", 0),
        "exhaustive": False,
    }
