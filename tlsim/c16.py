"""C16 — seeded calls are reproducible and independent of the global NumPy RNG.

The global RNG is an adversarial environment owned by the simulator.  A run is a history
of library calls (seeded with an int, a fresh RandomState, or None) and perturbations of
the global RNG, executed by 1-3 sim-threads:
  M1 sequential : one thread, perturbations only between calls
  M2 mid-call   : one thread, perturbations also at backend-call / callback events inside calls
  M3 concurrent : 2-3 threads (+ optional noise thread), baton switches at backend-call events
Oracles:
  O1 same (entry, options, seed kind, seed) => bit-identical result, anywhere in the run
  O2 int-seeded call with no foreign action inside its interval leaves the global state untouched
  O3 entries without random choices: identical results on repeated calls
"""
import contextlib
import copy
import os
import warnings

import numpy as np

from . import catalog, proxy, rngenv, snapshot
from .core import HarnessError, run_rng, stable_hash, digest_obj, Counter
from .sched import Scheduler, Sequential, RandomWalk, PCT, Replay

PROP = "C16"
LEVEL = "exploration"
_DEVNULL = open(os.devnull, "w")


def entries():
    """Seed-accepting entry points (the subject of the first two sentences of C16) get four times the
    share of the many small deterministic functions (third sentence)."""
    out = []
    for e in catalog.ENTRIES.values():
        if e["seeded"]:
            out.extend([e] * e.get("weight", 4))
        elif e["deterministic"]:
            out.append(e)
    return out


# ------------------------------------------------------------------ generation


def gen_template(rng, e):
    g = catalog.Choices(rng=rng, seed_value=0, callback=(lambda *a, **k: None) if e["cb"] else None)
    e["build"](g)
    return {"entry": e["name"], "choices": list(g.rec), "tenalg": "einsum" if rng.random() < 0.3 else "core",
            "dtype": rng.choice(["float64"] * 16 + ["float32"] * 2 + ["int64", "complex128"])}


def gen_record(rng, r):
    ents = entries()
    mode = rng.choice(["M1", "M1", "M2", "M2", "M3", "M3", "M3"])
    cfg = {"mode": mode, "env_seed": rng.randrange(1000)}
    thorough = os.environ.get("VERIF_TIER_INTERNAL", "quick") == "thorough"
    ntempl = rng.choice([1, 2, 3, 4] if thorough else [1, 2, 2, 3])
    templates = []
    for j in range(ntempl):
        e = ents[(r * 3 + j * 7) % len(ents)] if j == 0 else rng.choice(ents)
        templates.append(gen_template(rng, e))
    seeds = rng.sample([0, 1, 7, 42, 2**31 - 1, 2**32 - 1], 2)
    nthreads = 1 if mode != "M3" else rng.choice([2, 3, 3, 4] if thorough else [2, 2, 3])
    cfg["p_mid"] = 0.0 if mode == "M1" else rng.choice([0.01, 0.05, 0.2])
    cfg["noise"] = mode == "M3" and rng.random() < 0.5
    # granularity of mid-call events: backend calls only, or also every executed source line of library code
    # (a perturbation / switch can then land between two lines that make no backend call)
    cfg["gran"] = "line" if mode != "M1" and rng.random() < (0.2 if thorough else 0.06) else "event"
    if cfg["gran"] == "line" and cfg["p_mid"]:
        cfg["p_mid"] = cfg["p_mid"] / 5.0
    if mode == "M3":
        s = rng.random()
        cfg["strategy"] = ["random", rng.choice([0.05, 0.2, 0.5])] if s < 0.7 else ["pct", rng.choice([1, 2, 3])]
    else:
        cfg["strategy"] = ["sequential"]
    p_perturb = rng.choice([0.2, 0.4])
    threads = []
    for t in range(nthreads):
        ops = []
        nops = rng.randint(3, (14 if thorough else 8) if mode != "M3" else (8 if thorough else 5))
        if cfg["gran"] == "line":
            nops = min(nops, 4)  # line-level tracing is ~10x slower: shorter histories
        for _ in range(nops):
            if rng.random() < p_perturb:
                ops.append({"op": "perturb", "p": rngenv.gen_perturb(rng)})
            else:
                ti = rng.randrange(ntempl)
                e = catalog.ENTRIES[templates[ti]["entry"]]
                if e["seeded"]:
                    kind = rng.choice(["int", "int", "int", "rs", "rs", "none"])
                else:
                    kind = "det"
                # refit: estimator objects are fitted this many times before the result is taken (int seeds only);
                # not part of the comparison key: the number of earlier fits must not matter
                ops.append({"op": "call", "t": ti, "kind": kind, "s": rng.choice(seeds), "refit": rng.choice([1, 1, 2, 3, 12, 13]),
                            # "dirty": the argument arrays are buffers the caller has used before: the same objects were
                            # first filled with other values and passed to the same function, then refilled in place
                            "dirty": rng.random() < 0.12})
        threads.append({"role": "actor", "ops": ops})
    if cfg["noise"]:
        threads.append({"role": "noise", "ops": [{"op": "perturb", "p": rngenv.gen_perturb(rng)} for _ in range(rng.randint(3, 10))]})
    return {"property": PROP, "config": cfg, "templates": templates, "threads": threads}


def make_chooser(rng, rec):
    s = rec["config"]["strategy"]
    if s[0] == "sequential":
        return Sequential()
    if s[0] == "random":
        return RandomWalk(rng, s[1])
    return PCT(rng, len(rec["threads"]), s[1], 400)


# ------------------------------------------------------------------ execution


def fp_tags(kwargs, notes):
    tags = []
    if "which" in notes:
        tags.append("which=" + str(notes["which"]))
    if "init" in kwargs:
        tags.append("init=" + (kwargs["init"] if isinstance(kwargs["init"], str) else "user"))
    for k in ("svd", "method"):
        if kwargs.get(k) == "randomized_svd":
            tags.append("svd=randomized_svd")
        elif callable(kwargs.get(k)):
            tags.append("svd=callable:" + str(notes.get("svd_callable")))
    return tags


class Run:
    def __init__(self, rec, chooser, rng=None, plan=None):
        self.rec = rec
        self.cfg = rec["config"]
        self.P = proxy.get()
        self.sched = Scheduler(chooser, (), None, step_cap=400_000, log_lines=False)
        self.sched.strict_cap = False  # very long calls: after 4e5 yield points the history runs on without further switches
        self.rng = rng  # draws mid-call perturbations when plan is None
        self.plan = None if plan is None else {(p["t"], p["op"], p["ev"]): p["p"] for p in plan}
        self.realised = []  # mid-call perturbations that actually happened
        self.calls = []  # observations
        self.cnt = Counter()

    def gtrace(self, frame, event, arg):
        if event == "call":
            from .c15 import _traced_file

            # never inside module bodies: a yield there would park a thread that holds an import lock
            if frame.f_code.co_name != "<module>" and _traced_file(frame.f_code.co_filename):
                return self.ltrace
        return None

    def ltrace(self, frame, event, arg):
        if event == "line":
            self.hook(0, "line")
        return self.ltrace

    def hook(self, n, name):
        t = self.sched.cur
        st = t.local
        if not st.get("in_call") or st.get("in_hook"):
            return None
        st["in_hook"] = True
        try:
            return self._hook(t, st, name)
        finally:
            st["in_hook"] = False

    def _hook(self, t, st, name):
        st["ev"] += 1
        key = (t.id, st["op"], st["ev"])
        p = None
        if self.plan is not None:
            p = self.plan.get(key)
        elif self.cfg["p_mid"] and self.rng.random() < self.cfg["p_mid"]:
            p = rngenv.gen_perturb(self.rng)
        if p is not None:
            h = self.P.hook
            self.P.hook = None
            try:
                rngenv.apply(p[0], p[1])
            finally:
                self.P.hook = h
            st["foreign"] = True
            self.realised.append({"t": t.id, "op": st["op"], "ev": st["ev"], "p": list(p)})
            self.cnt.inc("fault:midcall_perturb:" + p[0])
            if name == "callback":
                self.cnt.inc("probe:perturb_at_callback")
            if name == "line":
                self.cnt.inc("probe:perturb_between_source_lines")
        if self.cfg["mode"] == "M3":
            self.sched.yield_point(("ev", name))
        return None

    def on_switch(self, frm, to, tag):
        st = self.sched.threads[frm].local
        if st.get("in_call"):
            st["foreign"] = True
            st["switched"] = True

    def callback(self, *a, **k):
        # what the library hands to the caller's callback is output of the call just like its return value
        cur = self.sched.cur
        st = getattr(cur, "local", None)
        if isinstance(st, dict) and st.get("in_call") and isinstance(st.get("cb"), list) and len(st["cb"]) < 400:
            try:
                st["cb"].append(snapshot.digest((a, sorted(k.items()))))
            except Exception as ex:  # noqa
                st["cb"].append("undigestable:" + type(ex).__name__)
        self.P.event("callback")
        return None

    def do_call(self, t, i, op):
        tm = self.rec["templates"][op["t"]]
        e = catalog.ENTRIES[tm["entry"]]
        kind = op["kind"]
        if kind == "int":
            seed_obj = int(op["s"])
        elif kind == "rs":
            seed_obj = np.random.RandomState(int(op["s"]))
        else:
            seed_obj = None
        g = catalog.Choices(replay=tm["choices"], seed_value=seed_obj, callback=self.callback if e["cb"] else None, dtype=tm.get("dtype"))
        g.refit = op.get("refit", 1) if kind in ("int", "det") else 1
        if g.refit > 1:
            self.cnt.inc("probe:estimator_refitted_before_result")
        if g.refit > 10:
            self.cnt.inc("probe:estimator_fitted_on_other_data_before")
        call = e["build"](g)
        tags = fp_tags(call["kwargs"], g.notes)
        if op.get("dirty") and kind in ("int", "det") and not call.get("exempt"):
            if not self.dirty_precall(call, seed_obj):
                # the pre-call changed its arguments beyond what was restored (documented in-place parameter,
                # or the known C15 finding): not a fair "same arguments" call any more -> start from fresh ones
                g = catalog.Choices(replay=tm["choices"], seed_value=seed_obj, callback=self.callback if e["cb"] else None, dtype=tm.get("dtype"))
                g.refit = op.get("refit", 1) if kind in ("int", "det") else 1
                call = e["build"](g)
        st = t.local
        import tensorly.tenalg as _ta

        # thread-local selection through the real manager: other sim-threads are unaffected
        _ta.set_backend(tm.get("tenalg", "core"), local_threadsafe=True)
        st.update(in_call=True, ev=0, op=i, foreign=False, switched=False, cb=[])
        before = rngenv.state_digest()
        inv = self.sched.stamp()
        try:
            with np.errstate(all="ignore"):  # thread-local in NumPy
                res = call["fn"](**call["kwargs"])
            out = snapshot.digest(res)
        except Exception as ex:
            out = "raised:" + type(ex).__name__
        finally:
            st["in_call"] = False
        if st.get("cb"):
            self.cnt.inc("probe:callback_arguments_in_result")
            out = snapshot.digest((out, st["cb"]))
        after = rngenv.state_digest()
        self.calls.append(
            dict(t=t.id, op=i, tmpl=op["t"], entry=tm["entry"], kind=kind, s=op["s"], out=out, inv=inv, ret=self.sched.stamp(),
                 events=st["ev"], foreign=st["foreign"], switched=st["switched"], g_before=before, g_after=after, tags=tags)
        )  # fmt: skip

    def dirty_precall(self, call, seed_obj):
        """Reuse of caller buffers: call the function once with the SAME argument objects holding other values,
        then restore the true values in place.  A library that remembers anything about an argument by object
        identity (id()-keyed memo, cached norms) now holds stale information; the real call that follows must
        still give the result of a fresh-array call.  The pre-call is not part of the history."""
        arrays = []

        def walk(o, seen):
            if isinstance(o, np.ndarray):
                if id(o) not in seen and o.dtype.kind in "fc" and o.flags.writeable:
                    seen.add(id(o))
                    arrays.append(o)
            elif isinstance(o, (list, tuple)):
                for x in o:
                    walk(x, seen)
            elif isinstance(o, dict):
                for x in o.values():
                    walk(x, seen)
            elif hasattr(o, "__dict__") and not callable(o):
                for x in vars(o).values():
                    walk(x, seen)

        walk(call["kwargs"], set())
        if not arrays:
            return True
        before = snapshot.flatten(call["kwargs"])
        saved = [a.copy() for a in arrays]
        for a in arrays:
            a *= 1.7
            a += 0.05
        h = self.P.hook
        self.P.hook = None  # no events, no perturbation, no switch inside the pre-call
        try:
            with np.errstate(all="ignore"):
                call["fn"](**call["kwargs"])
        except Exception:
            pass
        finally:
            self.P.hook = h
            for a, sv in zip(arrays, saved):
                a[...] = sv
        if snapshot.flatten(call["kwargs"]) != before:
            return False
        self.cnt.inc("probe:call_on_reused_argument_buffers")
        return True

    def thread_fn(self, spec):
        def fn(t):
            import sys

            if self.cfg.get("gran") == "line":
                sys.settrace(self.gtrace)
            try:
                run_ops(t)
            finally:
                sys.settrace(None)

        def run_ops(t):
            for i, op in enumerate(spec["ops"]):
                if self.cfg["mode"] == "M3":
                    self.sched.yield_point(("op", i))
                if op["op"] == "perturb":
                    h = self.P.hook
                    self.P.hook = None
                    try:
                        rngenv.apply(op["p"][0], op["p"][1])
                    finally:
                        self.P.hook = h
                    self.cnt.inc("fault:between_call_perturb:" + op["p"][0])
                    self.calls.append(dict(t=t.id, op=i, perturb=op["p"], inv=self.sched.stamp()))
                else:
                    self.do_call(t, i, op)

        return fn

    def execute(self):
        rngenv.reset(self.cfg["env_seed"])
        for spec in self.rec["threads"]:
            self.sched.add_thread(self.thread_fn(spec))
        self.sched.on_switch = self.on_switch
        self.P.begin(self.hook)
        # process-global redirections are installed once around the whole run by the controller
        # (contextlib.redirect_stdout / warnings.catch_warnings are not safe to nest across threads)
        import sys

        old_out = sys.stdout
        sys.stdout = _DEVNULL
        try:
            with warnings.catch_warnings():
                warnings.simplefilter("ignore")
                self.sched.run()
        finally:
            sys.stdout = old_out
            self.P.end()
        return self


# ------------------------------------------------------------------ oracle


def judge(run):
    """Returns list of (fingerprint, text, detail)."""
    out = []
    first = {}
    for c in run.calls:
        if "entry" not in c:
            continue
        tags = "|".join(c["tags"])
        if c["kind"] in ("int", "rs"):
            key = (c["tmpl"], c["kind"], c["s"])
            if key in first:
                f = first[key]
                if f["out"] != c["out"]:
                    out.append(
                        (f"O1|{c['entry']}|{tags}",
                         f"{c['entry']} called twice with random_state={'RandomState(%d)' % c['s'] if c['kind'] == 'rs' else c['s']} and identical "
                         f"arguments returned different results ({f['out'][:12]} at thread {f['t']} op {f['op']}, {c['out'][:12]} at thread {c['t']} op {c['op']})",
                         dict(first=[f["t"], f["op"]], second=[c["t"], c["op"]]))
                    )  # fmt: skip
            else:
                first[key] = c
            if c["kind"] == "int" and not c["foreign"] and c["g_before"] != c["g_after"]:
                out.append(
                    (f"O2|{c['entry']}|{tags}",
                     f"{c['entry']} with integer seed {c['s']} changed the global NumPy RNG state (no other actor ran during the call)",
                     dict(call=[c["t"], c["op"]]))
                )  # fmt: skip
        elif c["kind"] == "det":
            key = (c["tmpl"], "det")
            if key in first:
                f = first[key]
                if f["out"] != c["out"]:
                    out.append(
                        (f"O3|{c['entry']}|{tags}",
                         f"{c['entry']} (no random choices) returned different results on repeated identical calls "
                         f"(thread {f['t']} op {f['op']} vs thread {c['t']} op {c['op']})",
                         dict(first=[f["t"], f["op"]], second=[c["t"], c["op"]]))
                    )  # fmt: skip
            else:
                first[key] = c
            if not c["foreign"] and c["g_before"] != c["g_after"]:
                out.append(
                    (f"O3g|{c['entry']}|{tags}",
                     f"{c['entry']} (no random choices) changed the global NumPy RNG state",
                     dict(call=[c["t"], c["op"]]))
                )  # fmt: skip
    # keep one per fingerprint
    seen = set()
    uniq = []
    for v in out:
        if v[0] not in seen:
            seen.add(v[0])
            uniq.append(v)
    return uniq


def run_record(rec, chooser=None, rng=None, plan=None):
    if chooser is None:
        chooser = Replay(rec.get("schedule", []))
        plan = rec.get("midcall", []) if plan is None else plan
    run = Run(rec, chooser, rng=rng, plan=plan).execute()
    return run, judge(run)


def log_digest(run):
    return digest_obj([[{k: v for k, v in c.items() if k != "tags"} for c in run.calls], run.realised, run.sched.switches])


def probes(run, cnt):
    cnt.merge(run.cnt)
    cnt.inc("mode:" + run.cfg["mode"] + ("+line" if run.cfg.get("gran") == "line" else ""))
    cnt.inc("yield_points", run.sched.yields)
    if run.sched.aborted:
        cnt.inc("probe:history_ran_past_the_pre-emption_budget")
    cnt.inc("switches", run.sched.nswitch)
    keys = {}
    last_g = None
    for c in run.calls:
        if "entry" not in c:
            continue
        cnt.inc("calls")
        cnt.inc("entry:" + c["entry"] + ":" + c["kind"])
        cnt.inc("backend_events", c["events"])
        if c["out"].startswith("raised"):
            cnt.inc("calls_raised")
        if c["kind"] == "none":
            continue
        key = (c["tmpl"], c["kind"], c["s"] if c["kind"] != "det" else 0)
        keys.setdefault(key, []).append(c)
        if c["foreign"] and c["kind"] == "rs":
            cnt.inc("probe:foreign_action_inside_RandomState_seeded_call")
        if c["foreign"] and c["kind"] == "det":
            cnt.inc("probe:foreign_action_inside_deterministic_call")
        if c["switched"]:
            cnt.inc("probe:other_thread_ran_inside_call")
    for key, lst in keys.items():
        if len(lst) >= 2:
            cnt.inc("comparisons", len(lst) - 1)
            cnt.inc("probe:same_key_repeated")
            if len(lst) >= 3:
                cnt.inc("probe:same_key_>=3_times")
            if len({c["t"] for c in lst}) > 1:
                cnt.inc("probe:same_key_in_two_threads")
            if len({c["g_before"] for c in lst}) > 1:
                cnt.inc("probe:global_state_differs_between_same_key_calls")


# ------------------------------------------------------------------ worker


def worker(chunk):
    seed, lo, hi, want_samples = chunk
    proxy.get()
    cnt = Counter()
    distinct = set()
    viols = []
    per = {}
    samples = []
    for r in range(lo, hi):
        rng = run_rng(seed, PROP, r)
        rec = gen_record(rng, r)
        ch = make_chooser(rng, rec)
        run, vs = run_record(rec, ch, rng=rng)
        cnt.inc("runs")
        probes(run, cnt)
        distinct.add(stable_hash(digest_obj([rec["templates"], rec["threads"]]), tuple(run.sched.switches), len(run.realised)))
        if vs:
            cnt.inc("violating_runs")
        for fp, text, detail in vs:
            k = per.get(fp, 0)
            per[fp] = k + 1
            if k < 2:
                rec2 = dict(rec)
                rec2["schedule"] = [list(s) for s in run.sched.switches]
                rec2["midcall"] = list(run.realised)
                viols.append((r, fp, text, rec2))
        if want_samples and len(samples) < want_samples:
            samples.append(
                {"run": r, "config": rec["config"], "templates": rec["templates"], "threads": rec["threads"],
                 "midcall_perturbations": run.realised[:20], "schedule_switches": len(run.sched.switches),
                 "calls": [{k: c[k] for k in ("t", "op", "entry", "kind", "s", "out", "events", "foreign") if k in c} for c in run.calls if "entry" in c],
                 "verdict": [v[0] for v in vs] or "ok"}
            )  # fmt: skip
    return {"cnt": cnt, "distinct": distinct, "viols": viols, "samples": samples, "per_oracle": per}


def digests(seed, lo, hi):
    proxy.get()
    out = []
    for r in range(lo, hi):
        rng = run_rng(seed, PROP, r)
        rec = gen_record(rng, r)
        ch = make_chooser(rng, rec)
        run, vs = run_record(rec, ch, rng=rng)
        out.append(log_digest(run) + ":" + ",".join(sorted(v[0] for v in vs)))
    return out


# ------------------------------------------------------------------ minimise / replay


def _try(rec, fp):
    """Replay rec exactly (its schedule + midcall plan); fall back to sequential / no mid-call."""
    variants = [(rec.get("schedule", []), rec.get("midcall", []))]
    if rec.get("schedule"):
        variants.append(([], rec.get("midcall", [])))
    if rec.get("midcall"):
        variants.append((rec.get("schedule", []), []))
        variants.append(([], []))
    for sch, mid in variants:
        r = dict(rec, schedule=sch, midcall=mid)
        try:
            run, vs = run_record(r, Replay(sch), plan=mid)
        except HarnessError:
            continue
        if any(v[0] == fp for v in vs):
            r["schedule"] = [list(s) for s in run.sched.switches]
            r["midcall"] = list(run.realised)
            return r
    return None


def minimise(rec, fp):
    cur = _try(rec, fp)
    if cur is None:
        raise HarnessError("violation does not reproduce before minimisation")
    changed = True
    rounds = 0
    import time

    t_end = time.time() + float(os.environ.get("VERIF_MIN_BUDGET_S", "90"))
    while changed and rounds < 200 and time.time() < t_end:
        changed = False
        rounds += 1
        cands = []
        th = cur["threads"]
        for i in range(len(th)):
            if len(th) > 1:
                c = copy.deepcopy(cur)
                del c["threads"][i]
                c["schedule"] = []
                c["midcall"] = [m for m in c["midcall"] if m["t"] != i]
                for m in c["midcall"]:
                    if m["t"] > i:
                        m["t"] -= 1
                cands.append(c)
        for i, t in enumerate(th):
            for j in range(len(t["ops"])):
                c = copy.deepcopy(cur)
                del c["threads"][i]["ops"][j]
                c["midcall"] = [m for m in c["midcall"] if not (m["t"] == i and m["op"] == j)]
                for m in c["midcall"]:
                    if m["t"] == i and m["op"] > j:
                        m["op"] -= 1
                cands.append(c)
        for k in range(len(cur.get("midcall", []))):
            c = copy.deepcopy(cur)
            del c["midcall"][k]
            cands.append(c)
        for ti, tm in enumerate(cur["templates"]):
            ch = tm["choices"]
            for cut in range(len(ch)):
                if any(ch[cut:]):
                    c = copy.deepcopy(cur)
                    c["templates"][ti]["choices"] = ch[:cut] + [0] * (len(ch) - cut)
                    cands.append(c)
                    break
            for q in range(len(ch)):
                if ch[q]:
                    c = copy.deepcopy(cur)
                    c["templates"][ti]["choices"] = ch[:q] + [0] + ch[q + 1 :]
                    cands.append(c)
        if cur["config"]["mode"] != "M1" and not cur.get("midcall") and len(cur["threads"]) == 1:
            c = copy.deepcopy(cur)
            c["config"]["mode"] = "M1"
            c["config"]["p_mid"] = 0.0
            cands.append(c)
        for c in cands:
            if time.time() > t_end:
                break
            got = _try(c, fp)
            if got is not None:
                cur = got
                changed = True
                break
    return cur


def make_replay(rec, fp, seed, run_idx):
    run, vs = run_record(rec, Replay(rec.get("schedule", [])), plan=rec.get("midcall", []))
    text = next((v[1] for v in vs if v[0] == fp), "")
    args = {}
    for ti, tm in enumerate(rec["templates"]):
        e = catalog.ENTRIES[tm["entry"]]
        g = catalog.Choices(replay=tm["choices"], seed_value="<seed>", callback=(lambda *a, **k: None) if e["cb"] else None, dtype=tm.get("dtype"))
        call = e["build"](g)
        fl = {}
        for k in sorted(call["kwargs"]):
            snapshot.flatten(call["kwargs"][k], k, fl, with_base=False)
        args[str(ti)] = {p: (f"array{l[2]} {l[1]}" if l[0] == "arr" else repr(l[1:])[:60]) for p, l in fl.items()}
    return {
        "property": PROP,
        "verif_seed": seed,
        "run": run_idx,
        "oracle": fp,
        "violation": text,
        "config": rec["config"],
        "templates": rec["templates"],
        "template_arguments": args,
        "threads": rec["threads"],
        "schedule": [list(s) for s in run.sched.switches],
        "midcall": list(run.realised),
        "faults": list(run.realised) + [dict(t=i, op=j, p=o["p"]) for i, t in enumerate(rec["threads"]) for j, o in enumerate(t["ops"]) if o["op"] == "perturb"],
        "history": [{k: v for k, v in c.items() if k != "tags"} for c in run.calls],
        "all_oracles": [v[0] for v in vs],
        "event_log_digest": log_digest(run),
    }


def replay_file(path):
    import json

    with open(path) as f:
        rp = json.load(f)
    rec = {k: rp[k] for k in ("config", "templates", "threads", "schedule", "midcall")}
    run, vs = run_record(rec, Replay(rp["schedule"]), plan=rp["midcall"])
    dg = log_digest(run)
    # For C16 the same fingerprint must show again; the event-log digest contains the library's result digests,
    # so when the library itself is irreproducible (the defect C16 is about) it legitimately differs: reported, not required
    ok = any(v[0] == rp["oracle"] for v in vs)
    return ok, (f"replayed oracles={[v[0] for v in vs]} expected={rp['oracle']} digest_match={dg == rp['event_log_digest']}"
                + ("" if dg == rp["event_log_digest"] else " (results differ from the recorded execution: the library is not reproducible across executions)"))


# ------------------------------------------------------------------ driver interface

QUICK_RUNS = 12000
CHUNK = 50
CHUNK_TIMEOUT = 900
THOROUGH_S = 1200
DET_RUNS = 40
DET_STRICT = False  # irreproducible results are what C16 forbids: a self-test mismatch is then explained by a violation
SETS = ("distinct",)
ASSUMPTIONS = [
    "bit-identity of repeated identical floating-point work inside one process with single-threaded BLAS (OPENBLAS/OMP/MKL_NUM_THREADS=1 enforced by bin/vcheck)",
    "only the legacy global RNG (np.random.* / RandomState) is modelled as environment; tensorly uses nothing else",
    "mid-call perturbation and thread switches happen at backend-call events and callbacks, a subset of all instructions",
    "a call with random_state=None is part of the environment and never checked",
    "seeded sampling of environment histories and schedules, not enumeration",
]
COMPONENTS = {
    "real": ["every seed-accepting and every deterministic catalogue entry point of tensorly, on the stock NumPy backend behind the proxy", "numpy's global RandomState"],
    "stub": [],
    "simulated": ["the global NumPy RNG as adversarial environment (reseed / draw / restore between and during calls)", "thread scheduling at backend-call events (baton passing)", "user callbacks"],
}


def coverage(agg, wall):
    cnt = agg["cnt"]
    runs = cnt.get("runs", 0)
    return {
        "evaluations": runs,
        "distinct_nontrivial": len(agg["distinct"]),
        "rule": "one evaluation = one simulated environment history (3-20 library calls and global-RNG perturbations by 1-4 sim-threads). "
        "distinct_nontrivial counts distinct (call templates, thread programs, realised switch sequence, number of mid-call perturbations) tuples; "
        "every history contains at least one library call",
        "library_calls": cnt.get("calls", 0),
        "same_key_comparisons": cnt.get("comparisons", 0),
        "calls_that_raised": cnt.get("calls_raised", 0),
        "runs_per_hour": int(runs / max(wall, 1e-9) * 3600),
        "simulated_steps": cnt.get("backend_events", 0),
        "simulated_time_note": "no clock in the system; logical time = backend-call events",
        "context_switches": cnt.get("switches", 0),
        "faults_fired": {k[len("fault:") :]: v for k, v in sorted(cnt.items()) if k.startswith("fault:")},
        "modes": {k[len("mode:") :]: v for k, v in sorted(cnt.items()) if k.startswith("mode:")},
        "rare_condition_probes": {k[len("probe:") :]: v for k, v in sorted(cnt.items()) if k.startswith("probe:")},
        "entries_by_seed_kind": {k[len("entry:") :]: v for k, v in sorted(cnt.items()) if k.startswith("entry:")},
        "violating_runs": cnt.get("violating_runs", 0),
        "exhaustive": False,
    }
