"""Catalogue of public entry points shared by C15 and C16.

An entry is a function build(g) -> dict(fn=callable, kwargs=dict, exempt=[paths]).
All decisions (shapes, ranks, options, argument kinds, data seeds) are taken through
`g`, a recorded choice sequence: drawn from the run PRNG when generating, fed back
verbatim when replaying, and shrunk towards zeros (menus list the simplest option
first) when minimising.  Data values come from private RandomState instances; the
global NumPy RNG is never touched by the catalogue.

The callable is invoked as fn(**kwargs); kwargs are the caller-owned arguments that
C15 snapshots.  `exempt` lists argument paths documented as updated in place.
"""
import numpy as np

ENTRIES = {}


def entry(name, seeded=False, deterministic=False, groups=("c15",), cb=False):
    """seeded: accepts random_state (C16 O1/O2); deterministic: no random choices (C16 O3)."""

    def deco(f):
        ENTRIES[name] = dict(name=name, build=_with_common_options(f), seeded=seeded, deterministic=deterministic, groups=groups, cb=cb)
        return f

    return deco


def _with_common_options(f):
    """Options every entry point may offer without the entry's builder knowing: `verbose` (reporting paths
    compute extra quantities - norms, errors - and are a classic place for a stray global-RNG or in-place use).
    The extra choice is drawn *after* the builder's own choices, so older recorded choice lists replay unchanged."""
    import inspect

    def build(g):
        call = f(g)
        fn, kw = call["fn"], call["kwargs"]
        try:
            params = inspect.signature(fn).parameters
        except (TypeError, ValueError):
            return call
        # integer mode lists: sometimes one entry in its negative (count-from-the-end) spelling
        nd = next((v.ndim for k, v in kw.items() if k in ("tensor", "input_tensor", "X", "data_tensor") and isinstance(v, np.ndarray)), None)
        if nd:
            # every option whose name says "list of modes" (round 16, c15B: `fixed_factors` of tucker was not in the
            # hand-written list) - the value test below keeps lists of arrays / ranks out
            mode_keys = [k for k in kw if k in ("modes", "fixed_modes", "nn_modes", "row_modes", "column_modes", "fixed_factors")
                         or k.endswith("_modes") or k.endswith("_mode_list")]
            for k in mode_keys:
                v = kw.get(k)
                if isinstance(v, (list, tuple)) and v and all(isinstance(m, int) and 0 <= m < nd for m in v):
                    if g.flag(0.3):
                        i = g.int(0, len(v) - 1)
                        kw[k] = type(v)(m - nd if j == i else m for j, m in enumerate(v))
        accepts = "verbose" in params or any(q.kind is inspect.Parameter.VAR_KEYWORD and q.name == "opts" for q in params.values())
        if accepts and "verbose" not in kw:  # `**opts` closures build the estimator classes, which all take `verbose`
            if g.flag(0.1):
                kw["verbose"] = g.choice([True, 2])
        return call

    return build


def split_entry(prefix, builder, whiches, **flags):
    """Register one entry per sub-function of a grouped builder (better per-function coverage)."""
    for w in whiches:
        def build(g, _w=w):
            return builder(g, _w)

        build = _with_common_options(build)

        nm = w if prefix is None else f"{prefix}:{w}"
        ENTRIES[nm] = dict(name=nm, build=build, seeded=flags.get("seeded", False), deterministic=flags.get("deterministic", False),
                           groups=flags.get("groups", ("c15",)), cb=False)


class Choices:
    def __init__(self, rng=None, replay=None, seed_value=0, callback=None, dtype=None):
        self.rng = rng
        self.replay = list(replay) if replay is not None else None
        self.rec = []
        self.seed_value = seed_value
        self.callback = callback
        self.notes = {}
        self.fp_tags = []  # (argument path prefix, tag) pairs that refine C15 fingerprints
        self.last_weights = None
        self.refit = 1  # C16: how many times an estimator object is fitted before its result is taken
        self.dtype = {"float32": np.float32, "int64": np.int64, "complex128": np.complex128}.get(dtype, np.float64)  # per-workload data dtype

    def idx(self, n):
        i = len(self.rec)
        if self.replay is not None:
            v = self.replay[i] % n if i < len(self.replay) else 0
        else:
            v = self.rng.randrange(n)
        self.rec.append(v)
        return v

    def choice(self, seq):
        return seq[self.idx(len(seq))]

    def int(self, lo, hi):
        return lo + self.idx(hi - lo + 1)

    def flag(self, p=0.5):
        i = len(self.rec)
        if self.replay is not None:
            v = self.replay[i] % 2 if i < len(self.replay) else 0
        else:
            v = 1 if self.rng.random() < p else 0
        self.rec.append(v)
        return bool(v)

    def opt(self, kwargs, name, menu, p=0.5):
        """With probability p set kwargs[name] to one of menu (else leave the default)."""
        if self.flag(p):
            kwargs[name] = self.choice(menu)

    def seed(self):
        return self.seed_value

    def iters(self, short, long):
        """Iteration budget: mostly short; long budgets (which reach iteration-gated paths such as the line
        search that starts after sweep 5, at a much higher cost) with 12 % (quick tier) / 35 % (thorough)."""
        import os

        p = 0.35 if os.environ.get("VERIF_TIER_INTERNAL", "quick") == "thorough" else 0.12
        if self.flag(p):
            return self.choice(long)
        return self.choice(short)

    # ---------------------------------------------------------------- data
    def rs(self):
        return np.random.RandomState(1000 + self.int(0, 2))

    def arr(self, shape, nonneg=False, kinds=("c", "f", "tview", "slice"), dtype=None, rs=None, signed=True):
        """A data array of the given logical shape in one of several memory layouts."""
        rs = rs or self.rs()
        kind = self.choice(kinds)
        shape = tuple(shape)
        dt = dtype or self.dtype

        def draw(shp):
            v = rs.random_sample(shp)
            if dt is np.int64:
                return (v * 9).astype(np.int64) + 1
            if dt is np.complex128:
                return v + 1j * rs.random_sample(shp)
            return v.astype(dt)

        if kind == "slice" and len(shape) >= 1:
            base = draw(tuple(2 * s for s in shape))
            a = base[tuple(slice(None, None, 2) for _ in shape)]
        elif kind == "tview" and len(shape) >= 2:
            base = draw(shape[::-1])
            a = base.T
        elif kind == "f":
            a = np.asfortranarray(draw(shape))
        else:
            a = draw(shape)
        if not nonneg and signed:
            a -= dt(4) if dt is np.int64 else dt(0.4)  # in place on the fresh buffer: keeps the view structure
        deg = self.choice(["none"] * 9 + ["zero_slice", "ties", "constant", "onehot"]) if a.ndim >= 1 and a.size > 1 else "none"
        if deg == "zero_slice":  # an all-zero last column / slice (zero norms, singular systems)
            a[..., -1] = 0
        elif deg == "ties":  # many equal entries (sorting and arg-max ties)
            a[...] = np.round(a * 2) / 2 if dt is not np.int64 else a // 3
        elif deg == "constant":  # rank-deficient: every entry the same
            a[...] = a.flat[0] if a.flat[0] != 0 else 1
        elif deg == "onehot":  # columns of exactly unit length (identity / selection matrices): "nothing to do" shortcuts
            _onehot(a)
        return a

    def low_rank(self, shape, rank, nonneg=False, kinds=("c", "f", "tview", "slice")):
        """A noisy low-rank tensor placed into one of the memory layouts."""
        rs = self.rs()
        facs = [rs.random_sample((s, rank)) - (0.0 if nonneg else 0.4) for s in shape]
        t = np.zeros(shape)
        for r in range(rank):
            o = facs[0][:, r]
            for f in facs[1:]:
                o = np.multiply.outer(o, f[:, r])
            t += o
        if self.choice(["noisy", "noisy", "noisy", "exact"]) == "noisy":
            t += 0.01 * rs.random_sample(shape)  # else exactly low rank: convergence-gated paths (early stop, failed line search)
        out = self.arr(shape, kinds=kinds, rs=rs, signed=False)
        out[...] = t
        return out

    def shape3(self):
        return self.choice([(3, 4, 2), (4, 3, 3), (3, 3, 3), (2, 3, 4), (3, 1, 2)])

    def shapeN(self):
        return self.choice([(3, 4, 2), (4, 3, 3), (4, 3), (2, 3, 2, 2), (3, 3, 3), (1, 4, 3), (5, 2)])

    def weights(self, rank):
        k = self.choice(["none", "ones", "pos", "neg"])
        self.last_weights = k
        if k == "none":
            return None
        if k == "ones":
            return np.ones(rank)
        w = np.arange(1, rank + 1) * 1.5
        if k == "neg":
            w[0] = -w[0]
        return w

    def cp_init(self, shape, rank, nonneg=False, allow_obj=True):
        """A user CP initialisation as tuple / list / CPTensor with assorted weights."""
        from tensorly.cp_tensor import CPTensor

        rs = self.rs()
        facs = [self.arr((s, rank), nonneg=nonneg, rs=rs, kinds=("c", "f", "slice")) for s in shape]
        w = self.weights(rank)
        if nonneg and w is not None:
            w = np.abs(w)
        form = self.choice(["tuple", "list", "obj"] if allow_obj else ["tuple", "list"])
        if form == "tuple":
            return (w, facs)
        if form == "list":
            return [w, facs]
        return CPTensor((w, facs))

    def tucker_init(self, shape, ranks, nonneg=False):
        from tensorly.tucker_tensor import TuckerTensor

        rs = self.rs()
        core = self.arr(ranks, nonneg=nonneg, rs=rs, kinds=("c", "f"))
        facs = [self.arr((s, r), nonneg=nonneg, rs=rs, kinds=("c", "f", "slice")) for s, r in zip(shape, ranks)]
        form = self.choice(["tuple", "list", "obj"])
        unit = self.choice(["none"] * 4 + ["first", "last"])  # e.g. partial decompositions completed by identity factors
        if unit != "none" and facs:
            _onehot(facs[0 if unit == "first" else -1])
        if form == "tuple":
            return (core, facs)
        if form == "list":
            return [core, facs]
        return TuckerTensor((core, facs))


def _onehot(a):
    a[...] = 0
    if a.ndim == 2:
        for j in range(a.shape[1]):
            a[j % a.shape[0], j] = 1
    else:
        a[(0,) * a.ndim] = 1


def _cb(g):
    return g.callback


def _other_data(a):
    """Some other data set of a different shape (every axis one longer) for an estimator's earlier fits."""
    if isinstance(a, np.ndarray):
        return np.pad(a, [(0, 1)] * a.ndim, mode="edge") if a.ndim else a
    if isinstance(a, (list, tuple)):
        return type(a)(_other_data(x) for x in a)
    return a


def _refit(g, est, method, *args):
    """Fit the same estimator object several times and return the last result: with an integer random_state
    (or no random choice at all) every fit must start afresh, so neither the number of earlier fits nor what
    they were fitted on can matter.  g.refit = n: n fits on the same data; 10 + n: the n - 1 earlier fits are
    on *other* data of another shape (an earlier fit that raises is simply the caller's failed attempt)."""
    n = max(1, g.refit % 10)
    other = g.refit >= 10
    if not isinstance(getattr(est, "init", "svd"), str):
        # a user-supplied initialisation object is handed to every fit; the (known, C15) in-place rescaling of
        # non-unit-weight initialisations would make the second fit start elsewhere - not an RNG matter
        n = 1
    out = None
    for i in range(n):
        if other and i < n - 1:
            try:
                getattr(est, method)(*[_other_data(a) for a in args])
            except Exception:  # noqa
                pass
            continue
        out = getattr(est, method)(*args)
    return out


_SVD_CALLABLES = {}


def svd_callables():
    """User-supplied SVD callables (documented: `svd`/`method` may be a callable)."""
    if not _SVD_CALLABLES:
        import functools
        from tensorly.tenalg.svd import randomized_svd, truncated_svd

        def kwargs_rsvd(matrix, n_eigenvecs=None, **kwargs):
            return randomized_svd(matrix, n_eigenvecs=n_eigenvecs, **kwargs)

        def plain_tsvd(matrix, n_eigenvecs=None, **kwargs):
            return truncated_svd(matrix, n_eigenvecs=n_eigenvecs)

        _SVD_CALLABLES.update(
            partial_rsvd=functools.partial(randomized_svd, n_oversamples=3),
            kwargs_rsvd=kwargs_rsvd,
            fn_rsvd=randomized_svd,
            plain_tsvd=plain_tsvd,
        )
    return _SVD_CALLABLES


def svd_opt(g, kw, p, randomized=True, name="svd"):
    """Optionally choose an SVD: by name or as a user callable."""
    if not g.flag(p):
        return
    names = ["truncated_svd", "symeig_svd"] + (["randomized_svd"] if randomized else [])
    calls = ["plain_tsvd"] + (["partial_rsvd", "kwargs_rsvd", "fn_rsvd"] if randomized else [])
    pick = g.choice(names + calls)
    if pick in calls:
        kw[name] = svd_callables()[pick]
        g.notes["svd_callable"] = pick
    else:
        kw[name] = pick


# =============================================================== decompositions


def _cp_common(g, kw, shape, rank, nonneg=False, inits=("svd", "random", "user"), svds=True):
    init = g.choice(list(inits))
    if init == "user":
        kw["init"] = g.cp_init(shape, rank, nonneg=nonneg)
        if g.last_weights in ("pos", "neg"):
            g.fp_tags.append(("init", "nonunit-weights"))
    elif init != "svd" or g.flag(0.3):
        kw["init"] = init
    if svds:
        svd_opt(g, kw, 0.35)
    kw["random_state"] = g.seed()


@entry("parafac", seeded=True, cb=True)
def e_parafac(g):
    import tensorly.decomposition as D

    shape = g.shapeN()
    rank = g.choice([2, 1, 3])
    kw = dict(tensor=g.low_rank(shape, 2), rank=rank, n_iter_max=g.iters([2, 1, 3], [8, 14, 30]))
    _cp_common(g, kw, shape, rank)
    g.opt(kw, "normalize_factors", [True], 0.25)
    g.opt(kw, "orthogonalise", [True, 1], 0.15)
    g.opt(kw, "tol", [0, 1e-3, None], 0.4)
    g.opt(kw, "l2_reg", [0.1], 0.15)
    g.opt(kw, "cvg_criterion", ["rec_error"], 0.15)
    g.opt(kw, "return_errors", [True], 0.3)
    g.opt(kw, "linesearch", [True], 0.2)
    g.opt(kw, "sparsity", [2, 0.2], 0.15)
    if g.flag(0.4):
        m = (g.arr(shape, nonneg=True, kinds=("c", "f", "slice")) > 0.3)
        kw["mask"] = m if g.flag() else m.astype(float)
    if g.flag(0.35):
        nd = len(shape)
        kw["fixed_modes"] = g.choice([[0], [nd - 1], [0, nd - 1], list(range(nd)), [1], (0,)])
    if "mask" in kw:
        g.opt(kw, "svd_mask_repeats", [1, 0, 2], 0.4)
    if g.callback is not None and g.flag(0.5):
        kw["callback"] = _cb(g)
    return dict(fn=D.parafac, kwargs=kw)


@entry("CP.fit_transform", seeded=True)
def e_CP(g):
    import tensorly.decomposition as D

    shape = g.shape3()
    rank = g.choice([2, 1, 3])
    kw = dict(rank=rank, n_iter_max=g.choice([2, 1, 3]))
    _cp_common(g, kw, shape, rank)
    if isinstance(kw.get("init", "svd"), str) and g.flag(0.2):
        kw["rank"] = g.choice([0.5, "same", 0.3])  # relative to the tensor's size: resolved at each fit
    g.opt(kw, "normalize_factors", [True], 0.25)
    if g.flag(0.3):
        kw["fixed_modes"] = g.choice([[0], [2], [0, 2]])
    if g.flag(0.25):
        kw["mask"] = g.arr(shape, nonneg=True) > 0.3
    tensor = g.low_rank(shape, 2)

    def fn(tensor, **opts):
        est = D.CP(**opts)
        out = _refit(g, est, "fit_transform", tensor)
        return out, getattr(est, "errors_", None)

    return dict(fn=fn, kwargs=dict(tensor=tensor, **kw))


@entry("non_negative_parafac", seeded=True)
def e_nn_parafac(g):
    import tensorly.decomposition as D

    shape = g.shapeN()
    rank = g.choice([2, 1, 3])
    kw = dict(tensor=g.low_rank(shape, 2, nonneg=True), rank=rank, n_iter_max=g.choice([2, 1, 4]))
    _cp_common(g, kw, shape, rank, nonneg=True)
    g.opt(kw, "normalize_factors", [True], 0.25)
    g.opt(kw, "tol", [0, 1e-3], 0.3)
    g.opt(kw, "return_errors", [True], 0.3)
    g.opt(kw, "cvg_criterion", ["rec_error"], 0.15)
    if g.flag(0.3):
        kw["mask"] = g.arr(shape, nonneg=True) > 0.3
    if g.flag(0.35):
        nd = len(shape)
        kw["fixed_modes"] = g.choice([[0], [nd - 1], [0, nd - 1], [1]])
    return dict(fn=D.non_negative_parafac, kwargs=kw)


@entry("non_negative_parafac_hals", seeded=True)
def e_nn_parafac_hals(g):
    import tensorly.decomposition as D

    shape = g.shape3()
    rank = g.choice([2, 1, 3])
    kw = dict(tensor=g.low_rank(shape, 2, nonneg=True), rank=rank, n_iter_max=g.choice([2, 1, 3]))
    _cp_common(g, kw, shape, rank, nonneg=True)
    g.opt(kw, "normalize_factors", [True], 0.25)
    g.opt(kw, "tol", [0, 1e-3], 0.3)
    g.opt(kw, "return_errors", [True], 0.3)
    g.opt(kw, "cvg_criterion", ["rec_error"], 0.15)
    nd = len(shape)
    if g.flag(0.3):
        kw["sparsity_coefficients"] = g.choice([[0.1] * nd, [None, 0.2, None][:nd], [0.0, 0.1, 0.0][:nd]])
    if g.flag(0.3):
        kw["fixed_modes"] = g.choice([[0], [nd - 1], [0, 1]])
    if g.flag(0.3):
        kw["nn_modes"] = g.choice([[0], [0, 1], [nd - 1], (0, 2), {0, 1}, "all"])
    return dict(fn=D.non_negative_parafac_hals, kwargs=kw)


@entry("CP_NN_HALS.fit_transform", seeded=True)
def e_CPNNHALS(g):
    import tensorly.decomposition as D

    shape = g.shape3()
    rank = g.choice([2, 1])
    kw = dict(rank=rank, n_iter_max=g.choice([2, 1]))
    _cp_common(g, kw, shape, rank, nonneg=True)
    if g.flag(0.3):
        kw["sparsity_coefficients"] = [0.1, None, 0.0]
    if g.flag(0.3):
        kw["fixed_modes"] = g.choice([[0], [2]])
    tensor = g.low_rank(shape, 2, nonneg=True)

    def fn(tensor, **opts):
        return _refit(g, D.CP_NN_HALS(**opts), "fit_transform", tensor)

    return dict(fn=fn, kwargs=dict(tensor=tensor, **kw))


@entry("CP_NN.fit_transform", seeded=True)
def e_CPNN(g):
    import tensorly.decomposition as D

    shape = g.shape3()
    rank = g.choice([2, 1])
    kw = dict(rank=rank, n_iter_max=g.choice([2, 1]))
    _cp_common(g, kw, shape, rank, nonneg=True)
    if g.flag(0.3):
        kw["fixed_modes"] = g.choice([[0], [2]])
    tensor = g.low_rank(shape, 2, nonneg=True)

    def fn(tensor, **opts):
        return _refit(g, D.CP_NN(**opts), "fit_transform", tensor)

    return dict(fn=fn, kwargs=dict(tensor=tensor, **kw))


_CONSTRAINTS = [
    ("non_negative", [True, {0: True}, {1: True, 2: True}]),
    ("l1_reg", [0.1, [0.1, 0.2, 0.1, 0.1], {0: 0.1}, [0.1]]),
    ("l2_reg", [0.1, {1: 0.2}, [0.1, 0.2, 0.1, 0.1], [0.2]]),
    ("l2_square_reg", [0.1, [0.1, 0.1, 0.1, 0.1], [0.1, 0.1]]),
    ("unimodality", [True, {0: True}]),
    ("normalize", [True, {2: True}]),
    ("simplex", [1.0, {0: 1.0}, [1.0, 1.0, 1.0, 1.0], [1.0]]),
    ("normalized_sparsity", [2, {1: 2}, [2, 2, 2, 2], [2], 40]),
    ("soft_sparsity", [1.0, {0: 1.0}, [1.0, 1.0, 1.0, 1.0], [1.0]]),
    ("smoothness", [0.1, {1: 0.1}, [0.1, 0.1, 0.1, 0.1], [0.1]]),
    ("monotonicity", [True, {0: True}]),
    ("hard_sparsity", [2, {2: 2}, [2, 2, 2, 2], [2, 2], 40]),
]  # lists shorter than the number of modes are rejected by the library (IndexError): calls that raise are in scope too


def _constrained_opts(g, kw, shape, rank):
    name, menu = g.choice(_CONSTRAINTS)
    val = g.choice(menu)
    if isinstance(val, list):
        val = list(val[: len(shape)])
    elif isinstance(val, dict):
        val = dict(val)
    kw[name] = val
    if g.flag(0.15):  # a second constraint (may collide on a mode -> documented ValueError)
        name2, menu2 = g.choice(_CONSTRAINTS)
        if name2 != name:
            v2 = g.choice(menu2)
            if isinstance(v2, list):
                v2 = list(v2[: len(shape)])
            kw[name2] = v2
    _cp_common(g, kw, shape, rank)
    g.opt(kw, "n_iter_max_inner", [3, 1], 0.5)
    g.opt(kw, "tol_outer", [0, 1e-3], 0.2)
    g.opt(kw, "tol_inner", [0, 1e-2], 0.2)
    g.opt(kw, "return_errors", [True], 0.3)
    g.opt(kw, "cvg_criterion", ["rec_error"], 0.15)
    if g.flag(0.3):
        nd = len(shape)
        kw["fixed_modes"] = g.choice([[0], [nd - 1], [0, nd - 1]])


@entry("constrained_parafac", seeded=True)
def e_constrained(g):
    import tensorly.decomposition as D

    shape = g.choice([(3, 4, 2), (4, 3, 3), (3, 3, 2, 2)])
    rank = g.choice([2, 1, 3])
    kw = dict(tensor=g.low_rank(shape, 2, nonneg=True), rank=rank, n_iter_max=g.choice([2, 1, 3]))
    _constrained_opts(g, kw, shape, rank)
    return dict(fn=D.constrained_parafac, kwargs=kw)


@entry("ConstrainedCP.fit_transform", seeded=True)
def e_ConstrainedCP(g):
    import tensorly.decomposition as D

    shape = g.shape3()
    rank = g.choice([2, 1])
    kw = dict(rank=rank, n_iter_max=g.choice([2, 1]))
    _constrained_opts(g, kw, shape, rank)
    tensor = g.low_rank(shape, 2, nonneg=True)

    def fn(tensor, **opts):
        return _refit(g, D.ConstrainedCP(**opts), "fit_transform", tensor)

    return dict(fn=fn, kwargs=dict(tensor=tensor, **kw))


def _concrete_tucker_rank(shape, rank):
    """The rank list a 'same' / fractional specification stands for (needed to build a matching user init)."""
    if isinstance(rank, (list, tuple)):
        return [min(int(r), 9) for r in rank]
    from tensorly.tucker_tensor import validate_tucker_rank

    return [int(r) for r in validate_tucker_rank(tuple(shape), rank)]


def _tucker_rank(g, shape):
    return g.choice([[2] * len(shape), [min(s, 2 + (i % 2)) for i, s in enumerate(shape)], [1] * len(shape), [9] + [2] * (len(shape) - 1), "same", 0.5])


@entry("tucker", seeded=True)
def e_tucker(g):
    import tensorly.decomposition as D

    shape = g.shapeN()
    rank = _tucker_rank(g, shape)
    kw = dict(tensor=g.low_rank(shape, 2), rank=rank, n_iter_max=g.choice([2, 1, 3]))
    init = g.choice(["svd", "random", "user"])
    if init == "user":
        kw["init"] = g.tucker_init(shape, _concrete_tucker_rank(shape, rank))
    elif init == "random" or g.flag(0.3):
        kw["init"] = init
    svd_opt(g, kw, 0.35)
    g.opt(kw, "return_errors", [True], 0.3)
    g.opt(kw, "tol", [0, 1e-2], 0.3)
    if g.flag(0.25):
        kw["mask"] = g.arr(shape, nonneg=True) > 0.3
    if g.flag(0.3):  # 0.2 until round 16: c15B (negative entry in fixed_factors) was seen in 5 workloads of a batch only
        fm = g.choice([[0], [len(shape) - 1], [0, 1]])
        crank = _concrete_tucker_rank(shape, rank)
        core_shape = [shape[m] if m in fm else crank[m] for m in range(len(shape))]
        rs = g.rs()
        facs = [g.arr((shape[m], shape[m]), rs=rs, kinds=("c", "f")) for m in fm]
        kw["fixed_factors"] = fm
        kw["init"] = (g.arr(core_shape, rs=rs, kinds=("c",)), [
            facs[fm.index(m)] if m in fm else g.arr((shape[m], crank[m]), rs=rs, kinds=("c",)) for m in range(len(shape))
        ])
        kw.pop("mask", None)
    kw["random_state"] = g.seed()
    return dict(fn=D.tucker, kwargs=kw)


@entry("Tucker.fit_transform", seeded=True)
def e_Tucker(g):
    import tensorly.decomposition as D

    shape = g.shape3()
    rank = _tucker_rank(g, shape)
    kw = dict(rank=rank, n_iter_max=g.choice([2, 1]))
    init = g.choice(["svd", "random", "user"])
    if init == "user":
        kw["init"] = g.tucker_init(shape, _concrete_tucker_rank(shape, rank))
    elif init == "random":
        kw["init"] = init
    svd_opt(g, kw, 0.3)
    kw["random_state"] = g.seed()
    tensor = g.low_rank(shape, 2)

    def fn(tensor, **opts):
        return _refit(g, D.Tucker(**opts), "fit_transform", tensor)

    return dict(fn=fn, kwargs=dict(tensor=tensor, **kw))


@entry("partial_tucker", seeded=True)
def e_partial_tucker(g):
    import tensorly.decomposition as D

    shape = g.shapeN()
    modes = g.choice([[0, 1], [0], [1], list(range(len(shape)))])
    rank = [2 if shape[m] >= 2 else 1 for m in modes]
    kw = dict(tensor=g.low_rank(shape, 2), rank=rank, modes=modes, n_iter_max=g.choice([2, 1, 3]))
    init = g.choice(["svd", "random", "user"])
    if init == "user":
        rs = g.rs()
        core_shape = [rank[modes.index(m)] if m in modes else shape[m] for m in range(len(shape))]
        facs = [g.arr((shape[m], rank[i]), rs=rs, kinds=("c", "f", "slice")) for i, m in enumerate(modes)]
        core = g.arr(core_shape, rs=rs, kinds=("c", "f"))
        kw["init"] = g.choice([lambda c, f: (c, f), lambda c, f: [c, f]])(core, facs)
    elif init == "random":
        kw["init"] = init
    svd_opt(g, kw, 0.35)
    g.opt(kw, "tol", [0, 1e-2], 0.3)
    if g.flag(0.3):
        kw["mask"] = g.arr(shape, nonneg=True) > 0.3
        g.opt(kw, "svd_mask_repeats", [1, 0, 2], 0.4)
    if g.flag(0.2):
        kw["modes"] = tuple(kw["modes"])
    kw["random_state"] = g.seed()
    return dict(fn=D.partial_tucker, kwargs=kw)


@entry("non_negative_tucker", seeded=True)
def e_nn_tucker(g):
    import tensorly.decomposition as D

    shape = g.shape3()
    rank = _tucker_rank(g, shape)
    kw = dict(tensor=g.low_rank(shape, 2, nonneg=True), rank=rank, n_iter_max=g.choice([2, 1, 3]))
    init = g.choice(["svd", "random", "user"])
    if init == "user":
        kw["init"] = g.tucker_init(shape, _concrete_tucker_rank(shape, rank), nonneg=True)
    elif init == "random":
        kw["init"] = init
    g.opt(kw, "return_errors", [True], 0.3)
    g.opt(kw, "normalize_factors", [True], 0.3)
    g.opt(kw, "tol", [0], 0.2)
    kw["random_state"] = g.seed()
    return dict(fn=D.non_negative_tucker, kwargs=kw)


@entry("non_negative_tucker_hals", seeded=True)
def e_nn_tucker_hals(g):
    import tensorly.decomposition as D

    shape = g.shape3()
    rank = _tucker_rank(g, shape)
    kw = dict(tensor=g.low_rank(shape, 2, nonneg=True), rank=rank, n_iter_max=g.choice([2, 1]))
    init = g.choice(["svd", "random", "user"])
    if init == "user":
        kw["init"] = g.tucker_init(shape, _concrete_tucker_rank(shape, rank), nonneg=True)
    elif init == "random":
        kw["init"] = init
    svd_opt(g, kw, 0.25)
    g.opt(kw, "return_errors", [True], 0.3)
    g.opt(kw, "normalize_factors", [True], 0.3)
    g.opt(kw, "algorithm", ["active_set"], 0.3)
    g.opt(kw, "tol", [0, 1e-3], 0.3)
    if g.flag(0.3):
        kw["sparsity_coefficients"] = g.choice([[0.1, 0.1, 0.1], [None, 0.2, None]])
    g.opt(kw, "core_sparsity_coefficient", [0.1], 0.2)
    if g.flag(0.3):
        kw["fixed_modes"] = g.choice([[0], [2], [0, 2]])
    kw["random_state"] = g.seed()
    return dict(fn=D.non_negative_tucker_hals, kwargs=kw)


def _slices(g, n, J, sizes, nonneg=False):
    rs = g.rs()
    form = g.choice(["list", "tuple", "tensor"])
    exact = g.choice([0, 1, 0, 2])  # 0: generic data; r>0: slices of an exact rank-r PARAFAC2 model
    if exact:
        from tensorly.random import random_parafac2
        from tensorly.parafac2_tensor import parafac2_to_slices

        shapes = [(sizes[0] if form == "tensor" else sizes[i % len(sizes)], J) for i in range(n)]
        model = random_parafac2(shapes, min(exact, J), random_state=np.random.RandomState(11 + g.int(0, 1)))
        sl = [np.array(x) for x in parafac2_to_slices(model)]
        if nonneg:
            sl = [np.abs(x) for x in sl]
        if form == "tensor":
            return np.stack(sl)
        return sl if form == "list" else tuple(sl)
    if form == "tensor":
        return g.arr((n, sizes[0], J), nonneg=nonneg, rs=rs)
    sl = [g.arr((sizes[i % len(sizes)], J), nonneg=nonneg, rs=rs, kinds=("c", "f", "slice", "tview")) for i in range(n)]
    return sl if form == "list" else tuple(sl)


@entry("parafac2", seeded=True)
def e_parafac2(g):
    import tensorly.decomposition as D

    rank = g.choice([2, 1, 3])
    J = g.choice([3, 4])
    n = g.choice([3, 2])
    sizes = g.choice([[4, 4, 4], [4, 3, 5]])
    kw = dict(tensor_slices=_slices(g, n, J, sizes), rank=rank, n_iter_max=g.iters([2, 1, 3], [40, 12, 100]))
    init = g.choice(["random", "svd", "user"])
    if init == "svd":
        kw["init"] = "svd"
    elif init == "user":
        from tensorly.random import random_parafac2

        shapes = [tuple(s.shape) for s in kw["tensor_slices"]]
        p2 = random_parafac2(shapes, rank, random_state=np.random.RandomState(5))
        form = g.choice(["obj", "tuple", "list"])
        if form == "tuple":
            p2 = (p2.weights, list(p2.factors), list(p2.projections))
        elif form == "list":
            p2 = [p2.weights, list(p2.factors), list(p2.projections)]
        kw["init"] = p2
    svd_opt(g, kw, 0.3)
    g.opt(kw, "normalize_factors", [True], 0.25)
    g.opt(kw, "return_errors", [True], 0.3)
    g.opt(kw, "linesearch", [False], 0.4)
    g.opt(kw, "n_iter_parafac", [2, 1], 0.4)
    if g.flag(0.25):
        kw["nn_modes"] = g.choice([[0], [0, 2], "all"])
    g.opt(kw, "tol", [0, 1e-3], 0.2)
    kw["random_state"] = g.seed()
    return dict(fn=D.parafac2, kwargs=kw)


@entry("Parafac2.fit_transform", seeded=True)
def e_Parafac2(g):
    import tensorly.decomposition as D

    rank = g.choice([2, 1])
    kw = dict(rank=rank, n_iter_max=g.iters([2, 3], [40, 12, 100]), random_state=g.seed(), return_errors=True)
    g.opt(kw, "init", ["svd"], 0.3)
    g.opt(kw, "nn_modes", [[0]], 0.2)
    slices = _slices(g, 3, 3, [4, 4, 4])

    def fn(tensor_slices, **opts):
        return _refit(g, D.Parafac2(**opts), "fit_transform", tensor_slices)

    return dict(fn=fn, kwargs=dict(tensor_slices=slices, **kw))


@entry("randomised_parafac", seeded=True, cb=True)
def e_rand_parafac(g):
    import tensorly.decomposition as D

    shape = g.shape3()
    rank = g.choice([2, 1])
    kw = dict(tensor=g.low_rank(shape, 2), rank=rank, n_samples=g.choice([5, 3, 8]), n_iter_max=g.choice([2, 1, 4]), verbose=0)
    init = g.choice(["random", "svd", "user"])
    if init == "user":
        kw["init"] = g.cp_init(shape, rank)
        if g.last_weights in ("pos", "neg"):
            g.fp_tags.append(("init", "nonunit-weights"))
    else:
        kw["init"] = init
    svd_opt(g, kw, 0.3)
    g.opt(kw, "return_errors", [True], 0.3)
    g.opt(kw, "max_stagnation", [1, 0], 0.3)
    g.opt(kw, "tol", [0, 1e-2], 0.3)
    if g.callback is not None and g.flag(0.5):
        kw["callback"] = _cb(g)
    kw["random_state"] = g.seed()
    return dict(fn=D.randomised_parafac, kwargs=kw)


@entry("RandomizedCP.fit_transform", seeded=True)
def e_RandomizedCP(g):
    import tensorly.decomposition as D

    shape = g.shape3()
    kw = dict(rank=2, n_samples=g.choice([5, 3]), n_iter_max=2, verbose=0, random_state=g.seed())
    tensor = g.low_rank(shape, 2)

    def fn(tensor, **opts):
        return _refit(g, D.RandomizedCP(**opts), "fit_transform", tensor)

    return dict(fn=fn, kwargs=dict(tensor=tensor, **kw))


@entry("tensor_ring_als", seeded=True, cb=True)
def e_tr_als(g):
    import tensorly.decomposition as D

    shape = g.shape3()
    rank = g.choice([[2, 2, 2, 2], 2, [1, 2, 2, 1]])
    kw = dict(tensor=g.low_rank(shape, 2), rank=rank, n_iter_max=g.choice([2, 1, 3]))
    g.opt(kw, "ls_solve", ["normal_eq"], 0.4)
    g.opt(kw, "tol", [0], 0.3)
    if g.callback is not None and g.flag(0.5):
        kw["callback"] = _cb(g)
    kw["random_state"] = g.seed()
    return dict(fn=D.tensor_ring_als, kwargs=kw)


@entry("tensor_ring_als_sampled", seeded=True, cb=True)
def e_tr_als_sampled(g):
    import tensorly.decomposition as D

    shape = g.shape3()
    rank = g.choice([[2, 2, 2, 2], 2])
    kw = dict(tensor=g.low_rank(shape, 2), rank=rank, n_samples=g.choice([6, 4, [5, 6, 4], [3, 2, 5], (5, 6, 4), [1, 1, 1]]), n_iter_max=g.choice([2, 1, 3]))
    g.opt(kw, "uniform_sampling", [True], 0.3)
    g.opt(kw, "randomized_error", [True], 0.5)
    g.opt(kw, "tol", [0], 0.3)
    if g.callback is not None and g.flag(0.5):
        kw["callback"] = _cb(g)
    kw["random_state"] = g.seed()
    return dict(fn=D.tensor_ring_als_sampled, kwargs=kw)


@entry("TensorRingALS.fit_transform", seeded=True)
def e_TRALS(g):
    import tensorly.decomposition as D

    shape = g.shape3()
    kw = dict(rank=2, n_iter_max=2, random_state=g.seed())
    tensor = g.low_rank(shape, 2)

    def fn(tensor, **opts):
        return _refit(g, D.TensorRingALS(**opts), "fit_transform", tensor)

    return dict(fn=fn, kwargs=dict(tensor=tensor, **kw))


@entry("TensorRingALSSampled.fit_transform", seeded=True)
def e_TRALSS(g):
    import tensorly.decomposition as D

    shape = g.shape3()
    kw = dict(rank=2, n_samples=g.choice([5, [5, 4, 6], [2, 3, 2]]), n_iter_max=2, random_state=g.seed())
    tensor = g.low_rank(shape, 2)

    def fn(tensor, **opts):
        return _refit(g, D.TensorRingALSSampled(**opts), "fit_transform", tensor)

    return dict(fn=fn, kwargs=dict(tensor=tensor, **kw))


@entry("tensor_train", deterministic=True)
def e_tt(g):
    import tensorly.decomposition as D

    shape = g.choice([g.shapeN(), g.shapeN(), g.shapeN(), (6, 20, 20)])  # the last: unfoldings with a dimension >= 256
    rank = g.choice([2, [1] + [2] * (len(shape) - 1) + [1], 1, [1] + [9] * (len(shape) - 1) + [1], tuple([1] + [2] * (len(shape) - 1) + [1]), "same", 0.5])
    kw = dict(input_tensor=g.low_rank(shape, 2), rank=rank)
    svd_opt(g, kw, 0.4, randomized=False)
    return dict(fn=D.tensor_train, kwargs=kw)


@entry("tensor_train_matrix", deterministic=True)
def e_ttm(g):
    import tensorly.decomposition as D

    shape = g.choice([(2, 2, 3, 3), (2, 3, 2, 3)])
    kw = dict(tensor=g.arr(shape), rank=g.choice([2, [1, 2, 1]]))
    svd_opt(g, kw, 0.4, randomized=False)
    return dict(fn=D.tensor_train_matrix, kwargs=kw)


@entry("tensor_ring", deterministic=True)
def e_tr(g):
    import tensorly.decomposition as D

    shape = g.shape3()
    rank = g.choice([[2, 2, 2, 2], [1, 2, 2, 1], [2, 1, 2, 2], [2, 2, 9, 2], [1, 9, 2, 1], (1, 2, 2, 1)])
    kw = dict(input_tensor=g.low_rank(shape, 2), rank=list(rank) if isinstance(rank, list) else rank)
    g.opt(kw, "mode", [1, 2], 0.4)
    svd_opt(g, kw, 0.4, randomized=False)
    return dict(fn=D.tensor_ring, kwargs=kw)


@entry("robust_pca", deterministic=True)
def e_rpca(g):
    import tensorly.decomposition as D

    shape = g.choice([(4, 3, 3), (5, 4), (3, 3, 2)])
    kw = dict(X=g.low_rank(shape, 1), n_iter_max=g.choice([3, 1, 6]), verbose=0)
    if g.flag(0.4):
        m = g.arr(shape, nonneg=True, kinds=("c", "f", "slice")) > 0.2
        kw["mask"] = m if g.flag() else m.astype(float)
    g.opt(kw, "return_errors", [True], 0.3)
    g.opt(kw, "reg_E", [0.5], 0.3)
    g.opt(kw, "reg_J", [0.5], 0.2)
    g.opt(kw, "mu_init", [1e-2], 0.2)
    g.opt(kw, "mu_max", [10.0], 0.2)
    g.opt(kw, "learning_rate", [1.5], 0.2)
    g.opt(kw, "tol", [0], 0.2)
    return dict(fn=D.robust_pca, kwargs=kw)


@entry("coupled_matrix_tensor_3d_factorization", deterministic=True)
def e_cmtf(g):
    import tensorly.decomposition as D

    # rank <= every mode size: otherwise the SVD initialisation pads with random columns drawn from the
    # global RNG (the function takes no random_state), i.e. it would no longer be "without random choices"
    shape = g.choice([(3, 4, 2), (4, 3, 3), (3, 3, 3), (2, 3, 4)])
    rank = g.choice([2, 1])
    kw = dict(tensor_3d=g.low_rank(shape, 2), matrix=g.arr((shape[0], g.choice([3, 2]))), rank=rank, n_iter_max=g.choice([2, 1, 3]))
    g.opt(kw, "normalize_factors", [True], 0.3)
    g.opt(kw, "tol", [0], 0.2)
    return dict(fn=D.coupled_matrix_tensor_3d_factorization, kwargs=kw)


def _low_order(g, shape):
    """Mostly the given shape; sometimes an order-2 or order-1 tensor (nothing left to contract once the one
    mode is skipped: products then hand back their input object)."""
    return tuple(shape[: g.choice([3, 3, 3, 3, 2, 1])])


def _symmetric(g):
    rs = g.rs()
    order = g.choice([3, 3, 3, 3, 2, 1])
    v = rs.random_sample((3, 2))
    a = g.arr((3,) * order, signed=False)
    a[...] = np.einsum(*sum(([v, [i, order]] for i in range(order)), []), list(range(order)))
    return a


@entry("parafac_power_iteration")
def e_power(g):
    import tensorly.decomposition as D

    shape = _low_order(g, g.shape3())
    kw = dict(tensor=g.low_rank(shape, 2), rank=g.choice([2, 1]), n_repeat=2, n_iteration=2)
    return dict(fn=D.parafac_power_iteration, kwargs=kw)


@entry("symmetric_parafac_power_iteration")
def e_sympower(g):
    import tensorly.decomposition as D

    a = _symmetric(g)
    kw = dict(tensor=a, rank=g.choice([2, 1]), n_repeat=2, n_iteration=2)
    return dict(fn=D.symmetric_parafac_power_iteration, kwargs=kw)


@entry("tensor_train_cross", seeded=True)
def e_ttcross(g):
    from tensorly.contrib.decomposition import tensor_train_cross

    shape = g.choice([(3, 3, 3), (4, 3, 3)])
    rank = g.choice([[1, 2, 2, 1], [1, 2, 1, 1], [1, 3, 3, 1]])
    kw = dict(input_tensor=g.low_rank(shape, 2), rank=rank, n_iter_max=g.choice([10, 4, 2]), random_state=g.seed())
    g.opt(kw, "tol", [1e-1, 1.0], 0.5)
    return dict(fn=tensor_train_cross, kwargs=kw)


@entry("tensor_train_OI", deterministic=True)
def e_ttoi(g):
    from tensorly.contrib.decomposition import tensor_train_OI

    shape = g.choice([(3, 3, 3), (4, 3, 3)])
    kw = dict(data_tensor=g.low_rank(shape, 2), rank=g.choice([(1, 2, 2, 1), [1, 2, 2, 1]]), n_iter=g.choice([2, 4]))
    g.opt(kw, "trajectory", [True], 0.8)
    g.opt(kw, "return_errors", [False], 0.3)
    return dict(fn=tensor_train_OI, kwargs=kw)


@entry("sample_khatri_rao", seeded=True)
def e_skr(g):
    import tensorly.decomposition as D

    rs = g.rs()
    n = g.choice([3, 2])
    form = g.choice(["list", "tuple"])
    mats = [g.arr((g.choice([3, 4]), 2), rs=rs) for _ in range(n)]
    kw = dict(matrices=mats if form == "list" else tuple(mats), n_samples=g.choice([4, 2]), random_state=g.seed())
    g.opt(kw, "skip_matrix", [0, 1], 0.3)
    g.opt(kw, "return_sampled_rows", [True], 0.5)
    if g.flag(0.6):
        k = len(mats) - (1 if "skip_matrix" in kw else 0)
        base = g.choice([[0, 1, 2, 0], [0, -1, 2, -2], [1, 1, 0, -1]])[: kw["n_samples"]]
        form = g.choice(["list", "array", "tuple", "array"])
        kw["indices_list"] = [np.array(base) if form == "array" else (tuple(base) if form == "tuple" else list(base)) for _ in range(k)]
    return dict(fn=D.sample_khatri_rao, kwargs=kw)


# =============================================================== solvers


def _nnls_problem(g, r=None, c=None):
    rs = g.rs()
    r = r or g.choice([3, 2, 4, 1, 1])  # incl. single-component problems
    c = c or g.choice([4, 1, 3])
    U = rs.random_sample((6, r))
    M = rs.random_sample((6, c)) - 0.2
    UtU = g.arr((r, r), rs=rs, signed=False, kinds=("c", "f", "slice"))
    UtU[...] = U.T @ U
    UtM = g.arr((r, c), rs=rs, signed=False, kinds=("c", "f", "slice", "tview"))
    UtM[...] = U.T @ M
    return UtM, UtU, rs


@entry("hals_nnls", cb=True, deterministic=True)
def e_hals(g):
    from tensorly.solvers.nnls import hals_nnls

    UtM, UtU, rs = _nnls_problem(g)
    kw = dict(UtM=UtM, UtU=UtU, n_iter_max=g.choice([5, 1, 20]))
    exempt = []
    if g.flag(0.5):
        kw["V"] = g.arr(UtM.shape, nonneg=True, rs=rs)
        exempt.append("V")  # documented: the start matrix is updated in place
    g.opt(kw, "sparsity_coefficient", [0.1], 0.5)
    g.opt(kw, "ridge_coefficient", [0.1], 0.3)
    g.opt(kw, "nonzero_rows", [True], 0.3)
    g.opt(kw, "tol", [0], 0.2)
    g.opt(kw, "epsilon", [1e-3], 0.2)
    if g.callback is not None and g.flag(0.5):
        kw["callback"] = _cb(g)
    return dict(fn=hals_nnls, kwargs=kw, exempt=exempt)


@entry("fista", deterministic=True)
def e_fista(g):
    from tensorly.solvers.nnls import fista

    UtM, UtU, rs = _nnls_problem(g)
    kw = dict(UtM=UtM, UtU=UtU, n_iter_max=g.choice([5, 1, 20]))
    if g.flag(0.5):
        kw["x"] = g.arr(UtM.shape, nonneg=True, rs=rs)
    g.opt(kw, "non_negative", [False], 0.3)
    g.opt(kw, "sparsity_coef", [0.1], 0.3)
    g.opt(kw, "ridge_coef", [0.1], 0.3)
    g.opt(kw, "lr", [0.05], 0.2)
    g.opt(kw, "tol", [0, 1e-2], 0.3)
    g.opt(kw, "epsilon", [1e-3], 0.2)
    return dict(fn=fista, kwargs=kw)


@entry("active_set_nnls", deterministic=True)
def e_asnnls(g):
    from tensorly.solvers.nnls import active_set_nnls

    UtM, UtU, rs = _nnls_problem(g, c=1)
    vec = g.arr((UtU.shape[0],), rs=rs, signed=False, kinds=("c", "slice"))
    vec[...] = UtM[:, 0]
    kw = dict(Utm=vec, UtU=UtU, n_iter_max=g.choice([10, 1, 50]))
    if g.flag(0.5):
        kw["x"] = g.arr(kw["Utm"].shape, nonneg=True, rs=rs)
    g.opt(kw, "tol", [0, 1e-2], 0.3)
    return dict(fn=active_set_nnls, kwargs=kw)


@entry("admm", deterministic=True)
def e_admm(g):
    from tensorly.solvers.admm import admm

    UtM0, UtU, rs = _nnls_problem(g)
    r, c = UtM0.shape
    UtM = g.arr((c, r), rs=rs, signed=False, kinds=("c", "f", "slice", "tview"))
    UtM[...] = UtM0.T
    kw = dict(UtM=UtM, UtU=UtU, x=g.arr((c, r), nonneg=True, rs=rs), dual_var=g.arr((c, r), rs=rs), n_iter_max=g.choice([5, 1, 20]))
    if g.flag(0.7):
        kw["n_const"] = 1
        kw["order"] = 0
        name, menu = g.choice(_CONSTRAINTS)
        v = g.choice([m for m in menu if not isinstance(m, (list, dict))])
        kw[name] = [v] if g.flag() else {0: v}
        if g.flag(0.2):
            kw["n_const"] = 2  # the one-element list is then shorter than n_const
    g.opt(kw, "tol", [0, 1e-1], 0.3)
    return dict(fn=admm, kwargs=kw)


@entry("process_regularization_weights", deterministic=True)
def e_prw(g):
    from tensorly.solvers.penalizations import process_regularization_weights

    n = g.choice([3, 2])
    menu = [None, 0.1, [0.1] * n, [None, 0.2, None][:n], [0.0] * n]
    kw = dict(ridge_coefficients=g.choice(menu), sparsity_coefficients=g.choice(menu), n_modes=n)
    if isinstance(kw["ridge_coefficients"], list):
        kw["ridge_coefficients"] = list(kw["ridge_coefficients"])
    if isinstance(kw["sparsity_coefficients"], list):
        kw["sparsity_coefficients"] = list(kw["sparsity_coefficients"])
    return dict(fn=process_regularization_weights, kwargs=kw)


# =============================================================== proximal operators

_PROX = [
    ("soft_thresholding", dict(threshold=0.2)),
    ("hard_thresholding", dict(number_of_non_zero=3)),
    ("hard_thresholding", dict(number_of_non_zero=40)),  # at least as many as there are entries
    ("normalized_sparsity_prox", dict(threshold=40)),
    ("soft_thresholding", dict(threshold=0.0)),
    ("simplex_prox", dict(parameter=100.0)),
    ("soft_sparsity_prox", dict(threshold=100.0)),
    ("l2_prox", dict(regularizer=0.3)),
    ("l2_square_prox", dict(regularizer=0.3)),
    ("simplex_prox", dict(parameter=1.0)),
    ("soft_sparsity_prox", dict(threshold=1.0)),
    ("normalized_sparsity_prox", dict(threshold=2)),
    ("smoothness_prox", dict(regularizer=0.2)),
    ("monotonicity_prox", dict()),
    ("monotonicity_prox", dict(decreasing=True)),
    ("unimodality_prox", dict()),
    ("svd_thresholding", dict(threshold=0.3)),
    ("procrustes", dict()),
]


def e_prox(g, which):
    import tensorly.tenalg.proximal as P

    name, extra = _PROX[int(which.split("#")[1])]
    shape = g.choice([(4, 3), (5, 2), (3, 3)])
    if name in ("svd_thresholding", "procrustes"):
        kw = dict(matrix=g.arr(shape), **extra)
    else:
        kw = dict(tensor=g.arr(shape), **extra)
    g.notes["prox"] = name
    return dict(fn=getattr(P, name), kwargs=kw)


@entry("proximal_operator", deterministic=True)
def e_proxop(g):
    import tensorly.tenalg.proximal as P

    name, menu = g.choice(_CONSTRAINTS)
    v = g.choice([m for m in menu if not isinstance(m, (list, dict))])
    form = g.choice(["scalar", "list", "dict", "shortlist"])
    order = g.choice([0, 1])
    if form == "list":
        v = [v, v]
    elif form == "shortlist":
        v = [v]
    elif form == "dict":
        v = {order: v}
    kw = dict(tensor=g.arr(g.choice([(4, 3), (5, 2)])), n_const=2, order=order)
    kw[name] = v
    return dict(fn=P.proximal_operator, kwargs=kw)


@entry("validate_constraints", deterministic=True)
def e_valcon(g):
    import tensorly.tenalg.proximal as P

    kw = dict(n_const=3, order=g.choice([0, 1, 2]))
    for _ in range(g.choice([1, 2])):
        name, menu = g.choice(_CONSTRAINTS)
        v = g.choice(menu)
        if isinstance(v, list):
            v = list(v[:3])
        elif isinstance(v, dict):
            v = dict(v)
        kw[name] = v
    return dict(fn=P.validate_constraints, kwargs=kw)


# =============================================================== tensor algebra


@entry("mode_dot", deterministic=True)
def e_mode_dot(g):
    import tensorly.tenalg as T

    shape = g.shapeN()
    mode = g.int(0, len(shape) - 1)
    tr = g.flag(0.3)
    if g.flag(0.3):
        m = g.arr((shape[mode],))
    else:
        k = g.choice([2, 3])
        m = g.arr((shape[mode], k) if tr else (k, shape[mode]))
    kw = dict(tensor=g.arr(shape), matrix_or_vector=m, mode=mode)
    if tr:
        kw["transpose"] = True
    return dict(fn=T.mode_dot, kwargs=kw)


@entry("multi_mode_dot", deterministic=True)
def e_multi_mode_dot(g):
    import tensorly.tenalg as T

    shape = g.shape3()
    rs = g.rs()
    mats = [g.arr((2, s), rs=rs) for s in shape]
    form = g.choice(["list", "tuple"])
    kw = dict(tensor=g.arr(shape, rs=rs), matrix_or_vec_list=mats if form == "list" else tuple(mats))
    g.opt(kw, "skip", [0, 1], 0.3)
    if g.flag(0.3):
        kw["modes"] = [0, 2] if g.flag() else (0, 2)
        kw["matrix_or_vec_list"] = [mats[0], mats[2]]
        kw.pop("skip", None)
    if g.flag(0.2):
        kw["transpose"] = True
        kw["matrix_or_vec_list"] = type(kw["matrix_or_vec_list"])(np.ascontiguousarray(m.T) for m in kw["matrix_or_vec_list"])
    return dict(fn=T.multi_mode_dot, kwargs=kw)


def e_kron_kr(g, which):
    import tensorly.tenalg as T

    rs = g.rs()
    n = g.choice([2, 3])
    mats = [g.arr((g.choice([3, 2]), 2), rs=rs) for _ in range(n)]
    if g.flag(0.2):
        mats[1] = mats[0]  # the same array twice in the operand list
    kw = dict(matrices=mats if g.flag() else tuple(mats))
    g.opt(kw, "skip_matrix", [0, 1], 0.3)
    if which == "khatri_rao":
        g.opt(kw, "weights", [np.array([1.0, 2.0])], 0.3)
        if g.flag(0.25) and "skip_matrix" not in kw:
            nrows = int(np.prod([m.shape[0] for m in mats]))
            kw["mask"] = (g.arr((nrows, 1), rs=rs, nonneg=True, kinds=("c",)) > 0.3).astype(float)
    else:
        g.opt(kw, "reverse", [True], 0.3)
    return dict(fn=getattr(T, which), kwargs=kw)


def e_inner_outer(g, which):
    import tensorly.tenalg as T

    rs = g.rs()
    if which == "inner":
        kw = dict(tensor1=g.arr((3, 4, 2), rs=rs), tensor2=g.arr(g.choice([(3, 4, 2), (4, 2)]), rs=rs))
        if kw["tensor2"].ndim == 2:
            kw["n_modes"] = 2
        elif g.flag(0.2):
            kw["tensor2"] = kw["tensor1"]  # the same array as both operands
    elif which == "outer":
        kw = dict(tensors=[g.arr((3,), rs=rs), g.arr((2, 2), rs=rs), g.arr((2,), rs=rs)])
    elif which == "batched_outer":
        kw = dict(tensors=[g.arr((3, 2), rs=rs), g.arr((3, 4), rs=rs)])
    elif which == "tensordot":
        form = g.choice(["flat", "pair", "pair_neg", "int", "tuple_pair"])
        modes, batched = {"flat": ([1], [0]), "pair": (([1], [1]), ([0], [0])), "pair_neg": (([-2], [-2]), ([0], [-3])),
                          "int": (1, 0), "tuple_pair": (((1,), (1,)), ((0,), (0,)))}[form]
        kw = dict(tensor1=g.arr((3, 4, 2), rs=rs), tensor2=g.arr((3, 4, 5), rs=rs), modes=modes, batched_modes=batched)
    else:
        kw = dict(tensor=g.arr((5, 3), rs=rs), order=1)
        which = "higher_order_moment"
    return dict(fn=getattr(T, which), kwargs=kw)


@entry("unfolding_dot_khatri_rao", deterministic=True)
def e_mttkrp(g):
    import tensorly.tenalg as T

    shape = g.shapeN()  # orders 2, 3 and 4
    rank = g.choice([2, 1])
    kw = dict(tensor=g.arr(shape), cp_tensor=g.cp_init(shape, rank), mode=g.int(0, len(shape) - 1))
    return dict(fn=T.unfolding_dot_khatri_rao, kwargs=kw)


@entry("svd_interface", seeded=True)
def e_svd(g):
    from tensorly.tenalg.svd import svd_interface

    shape = g.choice([(5, 3), (3, 5), (4, 4), (6, 2), (320, 6), (8, 300)])  # the last two reach size-gated code paths
    m = g.choice(["randomized_svd", "truncated_svd", "symeig_svd", "partial_rsvd", "kwargs_rsvd", "fn_rsvd"])
    kw = dict(matrix=g.low_rank(shape, 2), method=svd_callables()[m] if m.endswith("_rsvd") else m)
    if m.endswith("_rsvd"):
        g.notes["svd_callable"] = m
    kw["n_eigenvecs"] = g.choice([2, 1, None, 3])
    g.opt(kw, "flip_sign", [False], 0.2)
    g.opt(kw, "u_based_flip_sign", [False], 0.2)
    g.opt(kw, "non_negative", [True, "nndsvd", "nndsvda"], 0.25)
    if g.flag(0.25):
        kw["mask"] = g.arr(shape, nonneg=True) > 0.2
        g.opt(kw, "n_iter_mask_imputation", [2], 0.5)
    if m.endswith("_rsvd") or m == "randomized_svd":
        kw["random_state"] = g.seed()
        if kw["n_eigenvecs"] is None:
            kw["n_eigenvecs"] = 2
    return dict(fn=svd_interface, kwargs=kw)


@entry("svd_interface_exact", deterministic=True)
def e_svd_exact(g):
    from tensorly.tenalg.svd import svd_interface

    shape = g.choice([(5, 3), (3, 5), (4, 4), (320, 6), (8, 300)])
    kw = dict(matrix=g.low_rank(shape, 2), method=g.choice(["truncated_svd", "symeig_svd"]), n_eigenvecs=g.choice([2, 1, None, 3]))
    g.opt(kw, "non_negative", [True], 0.25)
    return dict(fn=svd_interface, kwargs=kw)


@entry("randomized_svd", seeded=True)
def e_rsvd(g):
    from tensorly.tenalg.svd import randomized_svd, randomized_range_finder

    shape = g.choice([(6, 4), (4, 6), (5, 5)])
    if g.flag(0.3):
        kw = dict(A=g.low_rank(shape, 2), n_dims=g.choice([2, 3]), random_state=g.seed())
        g.opt(kw, "n_iter", [1, 0], 0.3)
        return dict(fn=randomized_range_finder, kwargs=kw)
    kw = dict(matrix=g.low_rank(shape, 2), n_eigenvecs=g.choice([2, 1, 3]), random_state=g.seed())
    g.opt(kw, "n_oversamples", [1, 2], 0.3)
    g.opt(kw, "n_iter", [1, 0], 0.3)
    return dict(fn=randomized_svd, kwargs=kw)


def e_base(g, which):
    import tensorly.base as B

    shape = g.shapeN()
    t = g.arr(shape)
    if which == "unfold":
        kw = dict(tensor=t, mode=g.int(0, len(shape) - 1))
    elif which == "tensor_to_vec":
        kw = dict(tensor=t)
    elif which == "partial_unfold":
        kw = dict(tensor=t, mode=0, skip_begin=1, skip_end=0, ravel_tensors=g.flag())
    elif which == "partial_tensor_to_vec":
        kw = dict(tensor=t, skip_begin=1, skip_end=0)
    elif which == "matricize":
        kw = dict(tensor=t, row_modes=[0], column_modes=list(range(1, len(shape))))
    else:
        mode = g.int(0, len(shape) - 1)
        u = g.arr((shape[mode], int(np.prod(shape)) // shape[mode]))
        kw = dict(unfolded_tensor=u, mode=mode, shape=list(shape))
    return dict(fn=getattr(B, which), kwargs=kw)


# =============================================================== factorised tensors


_CPFUN = ["cp_normalize", "cp_flip_sign", "cp_to_tensor", "cp_to_unfolded", "cp_to_vec", "cp_norm", "cp_mode_dot", "cp_mode_dot_inplace",
          "cp_permute_factors", "cp_lstsq_grad", "CPTensor.mode_dot", "CPTensor.norm"]  # fmt: skip


def e_cpfun(g, which):
    import tensorly.cp_tensor as C

    # tensors of order 2, 3 and 4 (cp_lstsq_grad is documented for third order only)
    shape = g.shape3() if which == "cp_lstsq_grad" else g.shapeN()
    nd = len(shape)
    rank = g.choice([2, 1, 3])
    g.notes["which"] = which
    cp = g.cp_init(shape, rank)
    exempt = []
    if which == "cp_normalize":
        return dict(fn=C.cp_normalize, kwargs=dict(cp_tensor=cp))
    if which == "cp_flip_sign":
        kw = dict(cp_tensor=cp)
        g.opt(kw, "mode", [1, nd - 1], 0.4)
        if g.flag(0.2):
            import tensorly as tl

            kw["func"] = tl.sum
        return dict(fn=C.cp_flip_sign, kwargs=kw)
    if which == "cp_to_tensor":
        kw = dict(cp_tensor=cp)
        if g.flag(0.3):
            kw["mask"] = g.arr(shape, nonneg=True) > 0.3
        return dict(fn=C.cp_to_tensor, kwargs=kw)
    if which == "cp_to_unfolded":
        return dict(fn=C.cp_to_unfolded, kwargs=dict(cp_tensor=cp, mode=g.int(0, nd - 1)))
    if which == "cp_to_vec":
        return dict(fn=C.cp_to_vec, kwargs=dict(cp_tensor=cp))
    if which == "cp_norm":
        return dict(fn=C.cp_norm, kwargs=dict(cp_tensor=cp))
    if which in ("cp_mode_dot", "cp_mode_dot_inplace"):
        mode = g.int(0, nd - 1)
        m = g.arr((shape[mode],)) if g.flag(0.4) else g.arr((2, shape[mode]))
        kw = dict(cp_tensor=cp, matrix_or_vector=m, mode=mode, copy=which == "cp_mode_dot")
        g.opt(kw, "keep_dim", [True], 0.3)
        if which == "cp_mode_dot_inplace":
            exempt = ["cp_tensor"]  # documented: copy=False operates in place
            if not isinstance(cp, C.CPTensor):
                kw["cp_tensor"] = C.CPTensor(tuple(cp))
        return dict(fn=C.cp_mode_dot, kwargs=kw, exempt=exempt)
    if which == "cp_permute_factors":
        # the function requires CPTensor objects (it calls .cp_copy())
        others = [C.CPTensor(tuple(g.cp_init(shape, rank, allow_obj=False))) for _ in range(g.choice([1, 2]))]
        ref = cp if isinstance(cp, C.CPTensor) else C.CPTensor(tuple(cp))
        return dict(fn=C.cp_permute_factors, kwargs=dict(ref_cp_tensor=ref, tensors_to_permute=others if g.flag() else others[0]))
    if which == "cp_lstsq_grad":
        kw = dict(cp_tensor=cp, tensor=g.arr(shape))
        g.opt(kw, "return_loss", [True], 0.4)
        if g.flag(0.3):
            kw["mask"] = (g.arr(shape, nonneg=True) > 0.3).astype(float)
        return dict(fn=C.cp_lstsq_grad, kwargs=kw)
    obj = C.CPTensor(cp) if not isinstance(cp, C.CPTensor) else cp
    if which == "CPTensor.mode_dot":
        mode = g.int(0, nd - 1)
        return dict(
            fn=lambda cp_tensor, m, mode: cp_tensor.mode_dot(m, mode, copy=True),
            kwargs=dict(cp_tensor=obj, m=g.arr((2, shape[mode])), mode=mode),
        )
    return dict(fn=lambda cp_tensor: cp_tensor.norm(), kwargs=dict(cp_tensor=obj))


_TUCKERFUN = ["tucker_to_tensor", "tucker_to_unfolded", "tucker_to_vec", "tucker_mode_dot", "tucker_mode_dot_inplace", "tucker_normalize"]


def e_tuckerfun(g, which):
    import tensorly.tucker_tensor as K

    shape = g.shape3()
    ranks = [2, 2, 2]
    g.notes["which"] = which
    tk = g.tucker_init(shape, ranks)
    if which == "tucker_to_tensor":
        kw = dict(tucker_tensor=tk)
        g.opt(kw, "skip_factor", [0, 1], 0.3)
        return dict(fn=K.tucker_to_tensor, kwargs=kw)
    if which == "tucker_to_unfolded":
        kw = dict(tucker_tensor=tk, mode=g.int(0, 2))
        g.opt(kw, "skip_factor", [0, 1], 0.3)
        return dict(fn=K.tucker_to_unfolded, kwargs=kw)
    if which == "tucker_to_vec":
        kw = dict(tucker_tensor=tk)
        g.opt(kw, "skip_factor", [0, 2], 0.3)
        return dict(fn=K.tucker_to_vec, kwargs=kw)
    if which == "tucker_normalize":
        return dict(fn=K.tucker_normalize, kwargs=dict(tucker_tensor=tk))
    mode = g.int(0, 2)
    m = g.arr((shape[mode],)) if g.flag(0.4) else g.arr((2, shape[mode]))
    kw = dict(tucker_tensor=tk, matrix_or_vector=m, mode=mode, copy=which == "tucker_mode_dot")
    g.opt(kw, "keep_dim", [True], 0.3)
    return dict(fn=K.tucker_mode_dot, kwargs=kw, exempt=["tucker_tensor"] if which.endswith("inplace") else [])


_TTFUN = ["tt_to_tensor", "tt_to_unfolded", "tt_to_vec", "pad_tt_rank", "tr_to_tensor", "tr_to_unfolded", "tr_to_vec",
          "tt_matrix_to_tensor", "tt_matrix_to_matrix", "tt_matrix_to_unfolded", "tt_matrix_to_vec"]  # fmt: skip


def e_ttfun(g, which):
    import tensorly.tt_tensor as TT
    import tensorly.tr_tensor as TR
    import tensorly.tt_matrix as TM

    rs = g.rs()
    g.notes["which"] = which
    form = g.choice(["list", "tuple", "obj"])
    if which.startswith("tt_matrix"):
        facs = [g.arr((1, 2, 3, 2), rs=rs, kinds=("c", "f")), g.arr((2, 3, 2, 1), rs=rs, kinds=("c", "f"))]
        f = facs if form == "list" else tuple(facs) if form == "tuple" else TM.TTMatrix(facs)
        kw = dict(tt_matrix=f)
        if which == "tt_matrix_to_unfolded":
            kw["mode"] = g.int(0, 1)
        import tensorly as tl

        fn = tl.tt_matrix_to_tensor if which == "tt_matrix_to_tensor" else getattr(TM, which)
        return dict(fn=fn, kwargs=kw)
    if which.startswith("tr_"):
        facs = [g.arr((2, 3, 2), rs=rs, kinds=("c", "f")), g.arr((2, 4, 3), rs=rs, kinds=("c", "f")), g.arr((3, 2, 2), rs=rs, kinds=("c", "f"))]
        f = facs if form == "list" else tuple(facs) if form == "tuple" else TR.TRTensor(facs)
        kw = dict(factors=f)
        if which == "tr_to_unfolded":
            kw["mode"] = g.int(0, 2)
        return dict(fn=getattr(TR, which), kwargs=kw)
    facs = [g.arr((1, 3, 2), rs=rs, kinds=("c", "f")), g.arr((2, 4, 2), rs=rs, kinds=("c", "f")), g.arr((2, 2, 1), rs=rs, kinds=("c", "f"))]
    f = facs if form == "list" else tuple(facs) if form == "tuple" else TT.TTTensor(facs)
    if which == "pad_tt_rank":
        kw = dict(factor_list=f, n_padding=g.choice([1, 2]))
        g.opt(kw, "pad_boundaries", [True], 0.3)
        return dict(fn=TT.pad_tt_rank, kwargs=kw)
    kw = dict(factors=f)
    if which == "tt_to_unfolded":
        kw["mode"] = g.int(0, 2)
    return dict(fn=getattr(TT, which), kwargs=kw)


_P2FUN = ["parafac2_to_tensor", "parafac2_to_slices", "parafac2_to_slice", "parafac2_to_unfolded", "parafac2_to_vec",
          "parafac2_normalise", "apply_parafac2_projections", "from_CPTensor"]  # fmt: skip


def e_p2fun(g, which):
    import tensorly.parafac2_tensor as P2
    from tensorly.random import random_parafac2

    g.notes["which"] = which
    shapes = g.choice([[(4, 3)] * 3, [(4, 3), (3, 3), (5, 3)]])
    rank = g.choice([2, 1])
    p2 = random_parafac2(shapes, rank, random_state=np.random.RandomState(3 + g.int(0, 1)))
    form = g.choice(["obj", "tuple", "list"])
    if form == "tuple":
        p2 = (p2.weights, list(p2.factors), list(p2.projections))
    elif form == "list":
        p2 = [p2.weights, list(p2.factors), list(p2.projections)]
    if which == "from_CPTensor":
        cp = g.cp_init((3, 4, 3), 2)
        kw = dict(cp_tensor=cp)
        g.opt(kw, "parafac2_tensor_ok", [True], 0.3)
        return dict(fn=P2.Parafac2Tensor.from_CPTensor, kwargs=kw)
    kw = dict(parafac2_tensor=p2)
    if which in ("parafac2_to_slice", "parafac2_to_slices"):
        g.opt(kw, "validate", [False], 0.3)
    if which == "parafac2_to_slice":
        kw["slice_idx"] = g.int(0, 2)
    if which == "parafac2_to_unfolded":
        kw["mode"] = g.int(0, 2)
    return dict(fn=getattr(P2, which), kwargs=kw)


# =============================================================== metrics / preprocessing


_METRICS = ["congruence_coefficient", "correlation_index", "MSE", "RMSE", "R2_score", "correlation", "covariance",
            "leverage_score_dist", "vonneumann_entropy", "cp_vonneumann_entropy", "tt_vonneumann_entropy"]  # fmt: skip


def e_metrics(g, which):
    import tensorly.metrics as M
    import tensorly.metrics.regression as MR
    from tensorly.metrics.factors import congruence_coefficient
    from tensorly.metrics.similarity import correlation_index

    rs = g.rs()
    g.notes["which"] = which
    if which == "congruence_coefficient":
        if g.flag():
            kw = dict(matrix1=g.arr((4, 3), rs=rs), matrix2=g.arr((4, 3), rs=rs))
            if g.flag(0.2):
                kw["matrix2"] = kw["matrix1"]
        else:
            kw = dict(matrix1=[g.arr((4, 2), rs=rs), g.arr((3, 2), rs=rs)], matrix2=[g.arr((4, 2), rs=rs), g.arr((3, 2), rs=rs)])
        g.opt(kw, "absolute_value", [False], 0.3)
        return dict(fn=congruence_coefficient, kwargs=kw)
    if which == "correlation_index":
        kw = dict(factors_1=[g.arr((4, 2), rs=rs), g.arr((3, 2), rs=rs)], factors_2=[g.arr((4, 2), rs=rs), g.arr((3, 2), rs=rs)])
        if g.flag(0.3):
            kw["factors_1"], kw["factors_2"] = tuple(kw["factors_1"]), tuple(kw["factors_2"])
        g.opt(kw, "method", ["min_score", "max_score"], 0.4)
        g.opt(kw, "tol", [1e-8], 0.2)
        return dict(fn=correlation_index, kwargs=kw)
    if which in ("MSE", "RMSE", "correlation", "covariance"):
        kw = dict(y_true=g.arr((5, 3), rs=rs), y_pred=g.arr((5, 3), rs=rs))
        if g.flag(0.2):
            kw["y_pred"] = kw["y_true"]
        g.opt(kw, "axis", [0, 1], 0.4)
        return dict(fn=getattr(MR, which), kwargs=kw)
    if which == "R2_score":
        return dict(fn=MR.R2_score, kwargs=dict(X_original=g.arr((5, 3), rs=rs), X_predicted=g.arr((5, 3), rs=rs)))
    if which == "leverage_score_dist":
        from tensorly.metrics.leverage_scores import leverage_score_dist

        return dict(fn=leverage_score_dist, kwargs=dict(matrix=g.arr((5, 2), rs=rs)))
    if which == "vonneumann_entropy":
        a = rs.random_sample((4, 4))
        m = g.arr((4, 4), rs=rs, signed=False, kinds=("c", "f", "slice"))
        m[...] = a @ a.T / np.trace(a @ a.T)
        if g.flag(0.4):
            m[0, 1] += 1e-17 + abs(m[0, 1]) * 1e-16  # symmetric only up to rounding, as products like (Q*p) @ Q.T are
        return dict(fn=M.vonneumann_entropy, kwargs=dict(tensor=m))
    if which == "cp_vonneumann_entropy":
        from tensorly.cp_tensor import CPTensor

        cp = g.cp_init((3, 3), 2, nonneg=True)
        if not isinstance(cp, CPTensor):
            cp = CPTensor(tuple(cp))
        return dict(fn=M.cp_vonneumann_entropy, kwargs=dict(tensor=cp))
    from tensorly.tt_tensor import TTTensor

    facs = [g.arr((1, 3, 2), rs=rs, kinds=("c",)), g.arr((2, 3, 1), rs=rs, kinds=("c",))]
    return dict(fn=M.tt_vonneumann_entropy, kwargs=dict(tensor=TTTensor(facs)))


@entry("preprocessing", deterministic=True)
def e_prep(g):
    import tensorly.preprocessing as PP
    from tensorly.random import random_parafac2

    if g.flag(0.6):
        kw = dict(tensor_slices=_slices(g, 3, 3, g.choice([[5, 5, 5], [5, 4, 6]])))
        g.opt(kw, "compression_threshold", [0.0, 1e-3], 0.3)
        g.opt(kw, "max_rank", [2], 0.3)
        svd_opt(g, kw, 0.2, randomized=False)
        return dict(fn=PP.svd_compress_tensor_slices, kwargs=kw)
    rs = g.rs()
    p2 = random_parafac2([(3, 3)] * 3, 2, random_state=np.random.RandomState(4))
    load = []
    for _ in range(3):
        a = g.arr((5, 3), rs=rs, kinds=("c", "f"), signed=False)
        a[...] = np.linalg.qr(rs.random_sample((5, 3)))[0]
        load.append(a)
    form = g.choice(["obj", "tuple"])
    if form == "tuple":
        p2 = (p2.weights, list(p2.factors), list(p2.projections))
    return dict(fn=PP.svd_decompress_parafac2_tensor, kwargs=dict(parafac2_tensor=p2, loading_matrices=load if g.flag() else tuple(load)))


# =============================================================== regression


@entry("CPRegressor", seeded=True)
def e_cpreg(g):
    from tensorly.regression import CPRegressor

    rs = g.rs()
    n = g.choice([6, 4])
    shape = g.choice([(3, 2), (2, 2, 2)])
    X = g.arr((n,) + shape, rs=rs)
    y = g.arr((n,), rs=rs, kinds=("c", "slice"))
    Xt = g.arr((3,) + shape, rs=rs)
    opts = dict(weight_rank=g.choice([2, 1]), n_iter_max=g.choice([3, 1]), verbose=0, random_state=g.seed())
    g.opt(opts, "reg_W", [0.5], 0.3)

    def fn(X, y, X_test, **o):
        est = CPRegressor(**o)
        _refit(g, est, "fit", X, y)
        return est.predict(X_test), est.weight_tensor_, est.cp_weight_

    return dict(fn=fn, kwargs=dict(X=X, y=y, X_test=Xt, **opts))


@entry("TuckerRegressor", seeded=True)
def e_tuckerreg(g):
    from tensorly.regression import TuckerRegressor

    rs = g.rs()
    n = g.choice([6, 4])
    shape = g.choice([(3, 2), (2, 2, 2)])
    X = g.arr((n,) + shape, rs=rs)
    y = g.arr((n,), rs=rs, kinds=("c", "slice"))
    Xt = g.arr((3,) + shape, rs=rs)
    ranks = [2] * len(shape)
    opts = dict(weight_ranks=ranks if g.flag() else tuple(ranks), n_iter_max=g.choice([3, 1]), verbose=0, random_state=g.seed())
    g.opt(opts, "reg_W", [0.5], 0.3)

    def fn(X, y, X_test, **o):
        est = TuckerRegressor(**o)
        _refit(g, est, "fit", X, y)
        return est.predict(X_test), est.weight_tensor_, est.tucker_weight_

    return dict(fn=fn, kwargs=dict(X=X, y=y, X_test=Xt, **opts))


@entry("CP_PLSR", seeded=True)
def e_plsr(g):
    from tensorly.regression import CP_PLSR

    rs = g.rs()
    n = g.choice([6, 5])
    xs = g.choice([(3, 2), (4,), (2, 2, 2)])
    ys = g.choice([(2,), (1,), (), (3,)])  # () = 1-D target vector
    X = g.arr((n,) + xs, rs=rs)
    Y = g.arr((n,) + ys, rs=rs, kinds=("c", "f", "slice") if ys else ("c", "slice"))
    Xt = g.arr((3,) + xs, rs=rs)
    Yt = g.arr((3,) + ys, rs=rs, kinds=("c", "f", "slice") if ys else ("c", "slice"))
    opts = dict(n_components=g.choice([2, 1]), n_iter_max=g.choice([5, 1]), random_state=g.seed())
    how = g.choice(["fit_predict", "fit_transform", "transform_with_Y", "fit_transform_both"])
    g.notes["which"] = how

    def fn(X, Y, X_test, Y_test, **o):
        est = CP_PLSR(**o)
        if how == "fit_predict":
            _refit(g, est, "fit", X, Y)
            return est.predict(X_test), est.X_factors, est.Y_factors
        if how == "fit_transform":
            _refit(g, est, "fit", X, Y)
            return est.transform(X_test), est.X_factors
        if how == "transform_with_Y":
            _refit(g, est, "fit", X, Y)
            return est.transform(X_test, Y_test)
        return _refit(g, est, "fit_transform", X, Y), est.transform(X_test, Y_test)

    return dict(fn=fn, kwargs=dict(X=X, Y=Y, X_test=Xt, Y_test=Yt, **opts))


# =============================================================== random generators


def e_random(g, which):
    import tensorly.random as R

    g.notes["which"] = which
    if which == "random_tensor":
        kw = dict(shape=g.shape3())
    elif which == "random_cp":
        kw = dict(shape=g.shapeN(), rank=g.choice([2, 1, 3, "same", 0.5]))
        g.opt(kw, "full", [True], 0.3)
        g.opt(kw, "orthogonal", [True], 0.3)
        g.opt(kw, "normalise_factors", [False], 0.3)
    elif which == "random_tucker":
        kw = dict(shape=g.shape3(), rank=g.choice([2, [2, 2, 1], "same", 0.5]))
        g.opt(kw, "full", [True], 0.3)
        g.opt(kw, "orthogonal", [True], 0.3)
        g.opt(kw, "non_negative", [True], 0.3)
    elif which == "random_tt":
        kw = dict(shape=g.choice([g.shape3(), (3, 4, 2), (6, 20, 20)]), rank=g.choice([2, [1, 2, 2, 1], "same", 0.5]))
        g.opt(kw, "full", [True], 0.3)
    elif which == "random_tt_matrix":
        kw = dict(shape=(2, 2, 3, 3), rank=g.choice([2, [1, 2, 1]]))
        g.opt(kw, "full", [True], 0.3)
    elif which == "random_tr":
        kw = dict(shape=g.shape3(), rank=g.choice([2, [2, 1, 2, 2], "same", 0.5]))
        g.opt(kw, "full", [True], 0.3)
    else:
        kw = dict(shapes=g.choice([[(4, 3)] * 3, [(4, 3), (3, 3), (5, 3)]]), rank=g.choice([2, 1]))
        g.opt(kw, "full", [True], 0.3)
        g.opt(kw, "normalise_factors", [True], 0.3)
    kw["random_state"] = g.seed()
    g.opt(kw, "dtype", [np.float32], 0.2)
    return dict(fn=getattr(R, which), kwargs=kw)


def e_backend_random(g, which):
    import tensorly as tl

    g.notes["which"] = which
    if which == "randn":
        return dict(fn=tl.randn, kwargs=dict(shape=g.choice([(3, 2), (4,)]), seed=g.seed()))
    if which == "gamma":
        return dict(fn=tl.gamma, kwargs=dict(shape=g.choice([2.0, 1.0]), scale=g.choice([1.0, 0.5]), size=g.choice([(3,), (2, 2)]), seed=g.seed()))

    def fn(seed):
        return tl.check_random_state(seed).random_sample(3)

    return dict(fn=fn, kwargs=dict(seed=g.seed()))


split_entry(None, e_cpfun, _CPFUN, deterministic=True)
split_entry(None, e_tuckerfun, _TUCKERFUN, deterministic=True)
split_entry(None, e_ttfun, _TTFUN, deterministic=True)
split_entry(None, e_p2fun, _P2FUN, deterministic=True)
split_entry("metrics", e_metrics, _METRICS, deterministic=True)
split_entry("prox", e_prox, [f"{n}#{i}" for i, (n, _) in enumerate(_PROX)], deterministic=True)
split_entry(None, e_inner_outer, ["inner", "outer", "batched_outer", "tensordot", "moment1"], deterministic=True)
split_entry(None, e_kron_kr, ["khatri_rao", "kronecker"], deterministic=True)
split_entry("base", e_base, ["unfold", "tensor_to_vec", "partial_unfold", "partial_tensor_to_vec", "matricize", "fold"], deterministic=True)
split_entry(None, e_random, ["random_tensor", "random_cp", "random_tucker", "random_tt", "random_tt_matrix", "random_tr", "random_parafac2"], seeded=True, groups=("c16",))
split_entry("backend", e_backend_random, ["randn", "gamma", "check_random_state"], seeded=True, groups=("c16",))


# =============================================================== remaining class wrappers / small functions


@entry("TensorTrain.fit_transform", deterministic=True)
def e_TT_cls(g):
    import tensorly.decomposition as D

    shape = g.shapeN()
    rank = g.choice([2, [1] + [2] * (len(shape) - 1) + [1]])
    tensor = g.low_rank(shape, 2)
    return dict(fn=lambda tensor, rank: D.TensorTrain(rank).fit_transform(tensor), kwargs=dict(tensor=tensor, rank=rank))


@entry("TensorRing.fit_transform", deterministic=True)
def e_TR_cls(g):
    import tensorly.decomposition as D

    shape = g.shape3()
    rank = g.choice([[1, 2, 2, 1], [2, 1, 2, 2]])
    tensor = g.low_rank(shape, 2)
    return dict(fn=lambda tensor, rank: D.TensorRing(rank).fit_transform(tensor), kwargs=dict(tensor=tensor, rank=rank))


@entry("TensorTrainMatrix.fit_transform", deterministic=True)
def e_TTM_cls(g):
    import tensorly.decomposition as D

    shape = g.choice([(2, 2, 3, 3), (2, 3, 2, 3)])
    rank = g.choice([2, [1, 2, 1]])
    return dict(fn=lambda tensor, rank: D.TensorTrainMatrix(rank).fit_transform(tensor), kwargs=dict(tensor=g.arr(shape), rank=rank))


@entry("power_iteration")
def e_power_it(g):
    import tensorly.decomposition as D

    which = g.choice(["power_iteration", "symmetric_power_iteration", "CPPower", "SymmetricCP"])
    g.notes["which"] = which
    rs = g.rs()
    if which in ("symmetric_power_iteration", "SymmetricCP"):
        a = _symmetric(g)
    else:
        a = g.low_rank(_low_order(g, g.shape3()), 2)
    if which == "power_iteration":
        return dict(fn=D.power_iteration, kwargs=dict(tensor=a, n_repeat=2, n_iteration=2))
    if which == "symmetric_power_iteration":
        return dict(fn=D.symmetric_power_iteration, kwargs=dict(tensor=a, n_repeat=2, n_iteration=2))
    if which == "CPPower":
        return dict(fn=lambda tensor: D.CPPower(2, n_repeat=2, n_iteration=2).fit_transform(tensor), kwargs=dict(tensor=a))
    return dict(fn=lambda tensor: D.SymmetricCP(2, n_repeat=2, n_iteration=2).fit_transform(tensor), kwargs=dict(tensor=a))


@entry("svd_helpers", deterministic=True)
def e_svd_helpers(g):
    from tensorly.tenalg.svd import svd_flip, make_svd_non_negative, truncated_svd, symeig_svd

    which = g.choice(["svd_flip", "make_svd_non_negative", "truncated_svd", "symeig_svd"])
    g.notes["which"] = which
    shape = g.choice([(5, 3), (3, 5), (4, 4), (300, 5), (6, 280)])
    m = g.low_rank(shape, 2)
    if which in ("truncated_svd", "symeig_svd"):
        fn = truncated_svd if which == "truncated_svd" else symeig_svd
        return dict(fn=fn, kwargs=dict(matrix=m, n_eigenvecs=g.choice([2, 1, None, 6])))
    rs = g.rs()
    k = min(shape)
    U = g.arr((shape[0], k), rs=rs)
    S = g.arr((k,), rs=rs, nonneg=True, kinds=("c", "slice"))
    V = g.arr((k, shape[1]), rs=rs)
    if which == "svd_flip":
        kw = dict(U=U, V=V)
        g.opt(kw, "u_based_decision", [False], 0.4)
        return dict(fn=svd_flip, kwargs=kw)
    kw = dict(tensor=m, U=U, S=S, V=V)
    g.opt(kw, "nntype", ["nndsvd", "nndsvda"], 0.5)
    return dict(fn=make_svd_non_negative, kwargs=kw)


# =============================================================== SVD-initialised decompositions without a seed (C16, third sentence)

_SVDINIT = ["parafac", "non_negative_parafac", "non_negative_parafac_hals", "constrained_parafac", "tucker", "partial_tucker",
            "non_negative_tucker", "non_negative_tucker_hals", "parafac2", "CP", "Tucker"]  # fmt: skip


def e_svdinit(g, which):
    """Exact-SVD initialisation, rank <= every mode size, random_state left at None: no random choice is
    involved, so repeated calls must agree bit for bit whatever the global RNG does."""
    import tensorly.decomposition as D

    shape = g.choice([(3, 4, 3), (4, 3, 3), (3, 3, 3), (6, 20, 20)])
    rank = g.choice([2, 1, 3])
    nonneg = "non_negative" in which or which == "constrained_parafac"
    tensor = g.low_rank(shape, 2, nonneg=nonneg)
    svd = g.choice(["truncated_svd", "symeig_svd"])
    it = g.choice([2, 1, 3])
    g.notes["which"] = which
    if which == "parafac":
        kw = dict(tensor=tensor, rank=rank, n_iter_max=it, init="svd", svd=svd)
        g.opt(kw, "normalize_factors", [True], 0.3)
        g.opt(kw, "linesearch", [True], 0.2)
        return dict(fn=D.parafac, kwargs=kw)
    if which in ("non_negative_parafac", "non_negative_parafac_hals"):
        kw = dict(tensor=tensor, rank=rank, n_iter_max=it, init="svd", svd=svd)
        g.opt(kw, "normalize_factors", [True], 0.3)
        return dict(fn=getattr(D, which), kwargs=kw)
    if which == "constrained_parafac":
        kw = dict(tensor=tensor, rank=rank, n_iter_max=it, init="svd", svd=svd, non_negative=True)
        return dict(fn=D.constrained_parafac, kwargs=kw)
    if which in ("tucker", "non_negative_tucker", "non_negative_tucker_hals"):
        kw = dict(tensor=tensor, rank=[rank] * 3, n_iter_max=it, init="svd")
        if which != "non_negative_tucker":
            kw["svd"] = svd
        return dict(fn=getattr(D, which), kwargs=kw)
    if which == "partial_tucker":
        return dict(fn=D.partial_tucker, kwargs=dict(tensor=tensor, rank=[rank, rank], modes=[0, 1], n_iter_max=it, init="svd", svd=svd))
    if which == "parafac2":
        kw = dict(tensor_slices=_slices(g, 3, 3, [4, 4, 4]), rank=g.choice([2, 1, 3]), n_iter_max=g.iters([it], [40, 12]), init="svd", svd=svd)
        g.opt(kw, "linesearch", [False], 0.3)
        return dict(fn=D.parafac2, kwargs=kw)
    if which == "CP":
        return dict(fn=lambda tensor, **o: D.CP(**o).fit_transform(tensor), kwargs=dict(tensor=tensor, rank=rank, n_iter_max=it, init="svd", svd=svd))
    return dict(fn=lambda tensor, **o: D.Tucker(**o).fit_transform(tensor), kwargs=dict(tensor=tensor, rank=[rank] * 3, n_iter_max=it, init="svd", svd=svd))


split_entry("svdinit", e_svdinit, _SVDINIT, deterministic=True, groups=("c16",))


# =============================================================== backend-level functions (tensorly/backend/core.py is an anchor of C15)

_BACKENDFUN = ["kron", "norm", "moveaxis", "sort", "flip", "clip", "index_update", "logsumexp", "concatenate_stack", "tensordot_dot"]


def e_backendfun(g, which):
    import tensorly as tl

    rs = g.rs()
    g.notes["which"] = which
    if which == "kron":
        return dict(fn=tl.kron, kwargs=dict(a=g.arr((2, 3), rs=rs), b=g.arr((3, 2), rs=rs)))
    if which == "norm":
        kw = dict(tensor=g.arr(g.shapeN(), rs=rs))
        g.opt(kw, "order", [1, "inf", 3], 0.5)
        g.opt(kw, "axis", [0, 1], 0.4)
        return dict(fn=tl.norm, kwargs=kw)
    if which == "moveaxis":
        return dict(fn=lambda tensor, source, destination: tl.moveaxis(tensor, source, destination),
                    kwargs=dict(tensor=g.arr((3, 4, 2), rs=rs), source=g.choice([0, [0, 1]]), destination=g.choice([2, [1, 2]])))
    if which == "sort":
        return dict(fn=lambda tensor, axis: tl.sort(tensor, axis), kwargs=dict(tensor=g.arr((4, 3), rs=rs), axis=g.choice([0, 1, None])))
    if which == "flip":
        kw = dict(tensor=g.arr((4, 3), rs=rs))
        g.opt(kw, "axis", [0, 1], 0.6)
        return dict(fn=lambda tensor, axis=None: tl.flip(tensor, axis), kwargs=kw)
    if which == "clip":
        return dict(fn=tl.clip, kwargs=dict(tensor=g.arr((4, 3), rs=rs), a_min=g.choice([0.0, None]), a_max=g.choice([0.3, None, 1.0])))
    if which == "index_update":
        # documented in-place: the first argument is exempt, the values are not
        return dict(fn=lambda tensor, values: tl.index_update(tensor, tl.index[:, 1], values),
                    kwargs=dict(tensor=g.arr((4, 3), rs=rs), values=g.arr((4,), rs=rs, kinds=("c", "slice"))), exempt=["tensor"])
    if which == "logsumexp":
        import tensorly.backend as T

        return dict(fn=T.logsumexp, kwargs=dict(tensor=g.arr((4, 3), rs=rs), axis=g.choice([0, 1])))
    if which == "concatenate_stack":
        arrs = [g.arr((2, 3), rs=rs) for _ in range(3)]
        if g.flag():
            return dict(fn=lambda tensors, axis: tl.concatenate(tensors, axis), kwargs=dict(tensors=arrs if g.flag() else tuple(arrs), axis=g.choice([0, 1])))
        return dict(fn=lambda arrays, axis: tl.stack(arrays, axis), kwargs=dict(arrays=arrs if g.flag() else tuple(arrs), axis=g.choice([0, 1])))
    a, b = g.arr((3, 4), rs=rs), g.arr((4, 2), rs=rs)
    if g.flag():
        return dict(fn=tl.dot, kwargs=dict(a=a, b=b))
    return dict(fn=lambda a, b: tl.tensordot(a, b, axes=1), kwargs=dict(a=a, b=b))


split_entry("tl", e_backendfun, _BACKENDFUN, deterministic=True)


# =============================================================== long runs on over-parameterised exact data
# Iteration-gated and failure-gated paths (line search after sweep 5, repeated failed line-search steps,
# stagnation, early convergence) need exactly low-rank data, a rank above the true one and dozens of sweeps.


@entry("parafac2_longrun", seeded=True, groups=("c16",))
def e_parafac2_long(g):
    import tensorly.decomposition as D
    from tensorly.random import random_parafac2
    from tensorly.parafac2_tensor import parafac2_to_slices

    true_rank = g.choice([1, 2])
    rank = true_rank + g.choice([1, 2])
    J = g.choice([3, 5])
    shapes = [(g.choice([4, 6]) + i, J) for i in range(3)]
    model = random_parafac2(shapes, true_rank, random_state=np.random.RandomState(3 + g.int(0, 2)))
    slices = [np.array(x) for x in parafac2_to_slices(model)]
    kw = dict(tensor_slices=slices, rank=rank, n_iter_max=g.choice([40, 100]), random_state=g.seed())
    g.opt(kw, "init", ["svd"], 0.3)
    g.opt(kw, "normalize_factors", [True], 0.2)
    return dict(fn=D.parafac2, kwargs=kw)


@entry("parafac_longrun", seeded=True, groups=("c16",))
def e_parafac_long(g):
    import tensorly.decomposition as D

    shape = g.choice([(4, 5, 3), (5, 4, 4)])
    true_rank = g.choice([1, 2])
    rs = np.random.RandomState(5 + g.int(0, 2))
    facs = [rs.random_sample((s, true_rank)) for s in shape]
    t = np.zeros(shape)
    for r in range(true_rank):
        t += np.multiply.outer(np.multiply.outer(facs[0][:, r], facs[1][:, r]), facs[2][:, r])
    kw = dict(tensor=t, rank=true_rank + g.choice([1, 2]), n_iter_max=g.choice([30, 60]), linesearch=True, random_state=g.seed())
    g.opt(kw, "init", ["random"], 0.6)
    g.opt(kw, "normalize_factors", [True], 0.2)
    g.opt(kw, "tol", [0, 1e-12], 0.5)
    return dict(fn=D.parafac, kwargs=kw)


ENTRIES["parafac2_longrun"]["weight"] = 1
ENTRIES["parafac_longrun"]["weight"] = 1


# =============================================================== wrapper-class methods and constructors, remaining base helpers

_WRAPPERS = ["CPTensor", "TuckerTensor", "TTTensor", "TRTensor", "TTMatrix", "Parafac2Tensor"]
_WMETHODS = ["construct", "to_tensor", "to_unfolded", "to_vec", "mode_dot", "normalize_like"]


def e_wrapper(g, which):
    """Methods of the factorised-tensor wrapper classes (they delegate to the module-level functions) and the
    constructors themselves, which are handed the caller's factor containers."""
    import tensorly as tl
    from tensorly.cp_tensor import CPTensor
    from tensorly.tucker_tensor import TuckerTensor
    from tensorly.tt_tensor import TTTensor
    from tensorly.tr_tensor import TRTensor
    from tensorly.tt_matrix import TTMatrix
    from tensorly.parafac2_tensor import Parafac2Tensor
    from tensorly.random import random_parafac2

    cls_name, method = which.split(".")
    rs = g.rs()
    g.notes["which"] = which
    if cls_name == "CPTensor":
        shape = g.shapeN()
        raw = tuple(g.cp_init(shape, g.choice([2, 1]), allow_obj=False))
        cls, nd = CPTensor, len(shape)
    elif cls_name == "TuckerTensor":
        shape = g.shape3()
        raw = tuple(g.tucker_init(shape, [2, 2, 2])) if not isinstance(g, type(None)) else None
        raw = (raw[0], raw[1]) if not isinstance(raw, TuckerTensor) else (raw.core, raw.factors)
        cls, nd = TuckerTensor, 3
    elif cls_name == "TTTensor":
        raw = [g.arr((1, 3, 2), rs=rs, kinds=("c", "f")), g.arr((2, 4, 2), rs=rs, kinds=("c", "f")), g.arr((2, 2, 1), rs=rs, kinds=("c", "f"))]
        cls, nd = TTTensor, 3
    elif cls_name == "TRTensor":
        raw = [g.arr((2, 3, 2), rs=rs, kinds=("c", "f")), g.arr((2, 4, 3), rs=rs, kinds=("c", "f")), g.arr((3, 2, 2), rs=rs, kinds=("c", "f"))]
        cls, nd = TRTensor, 3
    elif cls_name == "TTMatrix":
        raw = [g.arr((1, 2, 3, 2), rs=rs, kinds=("c", "f")), g.arr((2, 3, 2, 1), rs=rs, kinds=("c", "f"))]
        cls, nd = TTMatrix, 2
    else:
        p2 = random_parafac2(g.choice([[(4, 3)] * 3, [(4, 3), (3, 3), (5, 3)]]), 2, random_state=np.random.RandomState(3))
        raw = (p2.weights, list(p2.factors), list(p2.projections))
        cls, nd = Parafac2Tensor, 3
    if cls_name in ("TTTensor", "TRTensor", "TTMatrix") and g.flag():
        raw = tuple(raw)
    if method == "construct":
        if cls_name in ("TTTensor", "TTMatrix"):
            return dict(fn=lambda factors: cls(factors, inplace=False), kwargs=dict(factors=raw))
        return dict(fn=lambda factors: cls(factors), kwargs=dict(factors=raw))
    obj = cls(raw)
    if method == "to_tensor":
        return dict(fn=lambda obj: obj.to_tensor(), kwargs=dict(obj=obj))
    if method == "to_vec":
        return dict(fn=lambda obj: obj.to_vec(), kwargs=dict(obj=obj))
    if method == "to_unfolded":
        return dict(fn=lambda obj, mode: obj.to_unfolded(mode), kwargs=dict(obj=obj, mode=g.int(0, nd - 1)))
    if method == "mode_dot":
        if cls_name not in ("CPTensor", "TuckerTensor"):
            return dict(fn=lambda obj: obj.to_tensor(), kwargs=dict(obj=obj))
        mode = g.int(0, nd - 1)
        size = obj.shape[mode]
        m = g.arr((size,), rs=rs) if g.flag(0.4) else g.arr((2, size), rs=rs)
        return dict(fn=lambda obj, m, mode: obj.mode_dot(m, mode, copy=True), kwargs=dict(obj=obj, m=m, mode=mode))
    # "normalize_like": non-mutating normalisations offered for the class
    if cls_name == "CPTensor":
        return dict(fn=lambda obj: tl.cp_normalize(obj), kwargs=dict(obj=obj))
    if cls_name == "TuckerTensor":
        from tensorly.tucker_tensor import tucker_normalize

        return dict(fn=lambda obj: tucker_normalize(obj), kwargs=dict(obj=obj))
    if cls_name == "Parafac2Tensor":
        from tensorly.parafac2_tensor import parafac2_normalise

        return dict(fn=lambda obj: parafac2_normalise(obj), kwargs=dict(obj=obj))
    return dict(fn=lambda obj: (obj.shape, obj.rank, len(obj), obj[0]), kwargs=dict(obj=obj))


split_entry("wrap", e_wrapper, [f"{c}.{m}" for c in _WRAPPERS for m in _WMETHODS], deterministic=True)


def e_base2(g, which):
    import tensorly.base as B

    shape = g.shapeN()
    n = int(np.prod(shape))
    g.notes["which"] = which
    if which == "vec_to_tensor":
        return dict(fn=B.vec_to_tensor, kwargs=dict(vec=g.arr((n,), kinds=("c", "slice")), shape=list(shape) if g.flag() else tuple(shape)))
    if which == "partial_fold":
        full = (3,) + tuple(shape)
        mode = g.int(0, len(shape) - 1)
        unfolded = g.arr((3, shape[mode], n // shape[mode]))
        return dict(fn=B.partial_fold, kwargs=dict(unfolded=unfolded, mode=mode, shape=list(full), skip_begin=1, skip_end=0))
    if which == "partial_vec_to_tensor":
        full = (3,) + tuple(shape)
        return dict(fn=B.partial_vec_to_tensor, kwargs=dict(matrix=g.arr((3, n)), shape=list(full), skip_begin=1, skip_end=0))
    if which == "partial_unfold_end":
        full = tuple(shape) + (2,)
        return dict(fn=B.partial_unfold, kwargs=dict(tensor=g.arr(full), mode=0, skip_begin=0, skip_end=1, ravel_tensors=g.flag()))
    return dict(fn=B.matricize, kwargs=dict(tensor=g.arr(shape), row_modes=[len(shape) - 1, 0][: g.choice([1, 2])], column_modes=None))


split_entry("base", e_base2, ["vec_to_tensor", "partial_fold", "partial_vec_to_tensor", "partial_unfold_end", "matricize_rows"], deterministic=True)


# =============================================================== families: several functions on one shape / rank specification
# Hidden state shared between the functions of one format (rank validators, caches keyed by shape or rank)
# shows only when they are called one after the other on the same specification.


def e_family(g, which):
    import tensorly as tl
    import tensorly.decomposition as D
    import tensorly.random as R

    g.notes["which"] = which
    seed = g.seed()
    if which == "tt":
        shape = g.choice([(3, 4, 2), (3, 20, 20), (4, 3, 3), (2, 3, 2, 2)])
        rank = g.choice(["same", 0.5, 0.9, 2, [1] + [2] * (len(shape) - 1) + [1]])

        def fn(shape, rank, random_state):
            a = R.random_tt(shape, rank, random_state=random_state)
            full = R.random_tt(shape, rank, full=True, random_state=random_state)
            d = D.tensor_train(full, rank)
            b = R.random_tt(shape, rank, random_state=random_state)
            return a, d, b, tl.tt_tensor.validate_tt_rank(shape, rank)

    elif which == "tr":
        shape = g.choice([(3, 4, 2), (4, 3, 3), (3, 3, 3)])
        rank = g.choice(["same", 0.5, 2, [2, 1, 2, 2]])

        def fn(shape, rank, random_state):
            a = R.random_tr(shape, rank, random_state=random_state)
            full = R.random_tr(shape, rank, full=True, random_state=random_state)
            try:
                d = D.tensor_ring(full, rank)
            except ValueError:
                d = None
            b = R.random_tr(shape, rank, random_state=random_state)
            return a, d, b, tl.tr_tensor.validate_tr_rank(shape, rank)

    elif which == "tucker":
        shape = g.choice([(3, 4, 2), (4, 3, 3), (3, 3, 3)])
        rank = g.choice(["same", 0.5, [2, 2, 2], 2])

        def fn(shape, rank, random_state):
            a = R.random_tucker(shape, rank, random_state=random_state)
            full = R.random_tucker(shape, rank, full=True, random_state=random_state)
            d = D.tucker(full, rank, n_iter_max=2, random_state=random_state)
            b = R.random_tucker(shape, rank, random_state=random_state)
            return a, d, b, tl.tucker_tensor.validate_tucker_rank(shape, rank)

    else:
        shape = g.choice([(3, 4, 2), (4, 3, 3), (4, 3)])
        rank = g.choice(["same", 0.5, 2, 3])

        def fn(shape, rank, random_state):
            a = R.random_cp(shape, rank, random_state=random_state)
            full = R.random_cp(shape, rank, full=True, random_state=random_state)
            d = D.parafac(full, rank, n_iter_max=2, init="random", random_state=random_state)
            b = R.random_cp(shape, rank, random_state=random_state)
            return a, d, b, tl.cp_tensor.validate_cp_rank(shape, rank)

    return dict(fn=fn, kwargs=dict(shape=shape, rank=list(rank) if isinstance(rank, list) else rank, random_state=seed))


split_entry("family", e_family, ["tt", "tr", "tucker", "cp"], seeded=True, groups=("c16", "c15"))
for _k in ("family:tt", "family:tr", "family:tucker", "family:cp"):
    ENTRIES[_k]["weight"] = 2


# ---- order-1 / order-2 data: the degenerate end of "any order", where products have nothing left to contract
# and helper functions tend to hand back the very object they were given (round 12)
_LOWORDER = [
    "mode_dot", "multi_mode_dot", "multi_mode_dot_skip", "unfold_fold", "inner_outer", "kron_kr", "parafac", "nn_parafac",
    "nn_parafac_hals", "tucker", "nn_tucker", "tensor_train", "tensor_ring", "cp_to_tensor", "tucker_to_tensor", "tt_to_tensor",
    "tr_to_tensor", "cp_normalize", "robust_pca", "randomised_parafac", "norms", "constrained_parafac",
]  # fmt: skip


def e_loworder(g, which):
    import tensorly as tl
    import tensorly.decomposition as D
    import tensorly.tenalg as T
    from tensorly import base as B

    g.notes["which"] = which
    order = g.choice([1, 2])
    n = g.choice([5, 3, 1])
    shape = (n,) if order == 1 else (n, g.choice([4, 2]))
    rs = g.rs()
    nonneg = which.startswith("nn_")
    a = g.arr(shape, rs=rs, nonneg=nonneg)
    if which == "mode_dot":
        m = g.arr((2, shape[0]), rs=rs) if g.flag(0.6) else g.arr((shape[0],), rs=rs)
        return dict(fn=T.mode_dot, kwargs=dict(tensor=a, matrix_or_vector=m, mode=0))
    if which in ("multi_mode_dot", "multi_mode_dot_skip"):
        ms = [g.arr((2, s), rs=rs) if g.flag(0.6) else g.arr((s,), rs=rs) for s in shape]
        kw = dict(tensor=a, matrix_or_vec_list=ms)
        if which.endswith("skip"):
            kw["skip"] = g.int(0, order - 1)
        g.opt(kw, "transpose", [True], 0.2)
        if kw.get("transpose"):
            kw["matrix_or_vec_list"] = [m.T.copy() if m.ndim == 2 else m for m in ms]
        return dict(fn=T.multi_mode_dot, kwargs=kw)
    if which == "unfold_fold":
        f = g.choice(["unfold", "fold", "tensor_to_vec", "vec_to_tensor", "partial_unfold", "matricize"])
        g.notes["f"] = f
        if f == "unfold":
            return dict(fn=B.unfold, kwargs=dict(tensor=a, mode=g.int(0, order - 1)))
        if f == "fold":
            return dict(fn=B.fold, kwargs=dict(unfolded_tensor=a, mode=0, shape=shape))
        if f == "tensor_to_vec":
            return dict(fn=B.tensor_to_vec, kwargs=dict(tensor=a))
        if f == "vec_to_tensor":
            return dict(fn=B.vec_to_tensor, kwargs=dict(vec=g.arr((int(np.prod(shape)),), rs=rs), shape=shape))
        if f == "partial_unfold":
            return dict(fn=B.partial_unfold, kwargs=dict(tensor=a, mode=0, skip_begin=g.choice([0, 1]), ravel_tensors=g.flag()))
        return dict(fn=B.matricize, kwargs=dict(tensor=a, row_modes=[0], column_modes=list(range(1, order))))
    if which == "inner_outer":
        f = g.choice(["inner", "outer", "batched_outer", "tensordot"])
        g.notes["f"] = f
        b = g.arr(shape, rs=rs)
        if f == "inner":
            return dict(fn=T.inner, kwargs=dict(tensor1=a, tensor2=b, n_modes=g.choice([None, 1, order])))
        if f == "outer":
            return dict(fn=T.outer, kwargs=dict(tensors=[a] if g.flag(0.4) else [a, b]))
        if f == "batched_outer":
            return dict(fn=T.batched_outer, kwargs=dict(tensors=[a] if g.flag(0.4) else [a, b]))
        return dict(fn=T.tensordot, kwargs=dict(tensor1=a, tensor2=b, modes=g.choice([0, 1, [0], ([0], [0])])))
    if which == "kron_kr":
        ms = [g.arr((s, 2), rs=rs) for s in shape]
        if g.flag():
            return dict(fn=T.khatri_rao, kwargs=dict(matrices=ms))
        return dict(fn=T.kronecker, kwargs=dict(matrices=ms))
    rank = g.choice([2, 1])
    if which in ("parafac", "nn_parafac", "nn_parafac_hals", "randomised_parafac", "constrained_parafac"):
        kw = dict(rank=rank, n_iter_max=2, init=g.choice(["random", "svd"]), random_state=0)
        if which == "parafac":
            if g.flag(0.3):
                kw["mask"] = g.arr(shape, rs=rs, nonneg=True) > 0.3
            g.opt(kw, "normalize_factors", [True], 0.3)
            g.opt(kw, "orthogonalise", [True], 0.2)
            g.opt(kw, "linesearch", [True], 0.2)
            return dict(fn=D.parafac, kwargs=dict(tensor=a, **kw))
        if which == "nn_parafac":
            return dict(fn=D.non_negative_parafac, kwargs=dict(tensor=a, **kw))
        if which == "nn_parafac_hals":
            return dict(fn=D.non_negative_parafac_hals, kwargs=dict(tensor=a, **kw))
        if which == "constrained_parafac":
            kw["n_iter_max_inner"] = 2
            kw[g.choice(["non_negative", "l1_reg", "unimodality", "normalize", "l2_square_reg"])] = g.choice([True, {0: True}]) if True else None
            if "l1_reg" in kw or "l2_square_reg" in kw:
                k = "l1_reg" if "l1_reg" in kw else "l2_square_reg"
                kw[k] = g.choice([0.1, {0: 0.1}])
            return dict(fn=D.constrained_parafac, kwargs=dict(tensor=a, **kw))
        kw.pop("n_iter_max")
        return dict(fn=D.randomised_parafac, kwargs=dict(tensor=a, n_samples=g.choice([3, 1]), max_stagnation=2, n_iter_max=3, **kw))
    if which in ("tucker", "nn_tucker"):
        kw = dict(rank=[rank] * order, n_iter_max=2, init=g.choice(["random", "svd"]), random_state=0)
        if which == "tucker":
            if g.flag(0.3):
                kw["mask"] = g.arr(shape, rs=rs, nonneg=True) > 0.3
            if g.flag(0.3):
                kw["fixed_factors"] = None
            return dict(fn=D.tucker, kwargs=dict(tensor=a, **kw))
        if g.flag():
            return dict(fn=D.non_negative_tucker, kwargs=dict(tensor=a, **kw))
        return dict(fn=D.non_negative_tucker_hals, kwargs=dict(tensor=a, **kw))
    if which == "tensor_train":
        return dict(fn=D.tensor_train, kwargs=dict(input_tensor=a, rank=g.choice([[1] + [2] * (order - 1) + [1], 2, "same"])))
    if which == "tensor_ring":
        return dict(fn=D.tensor_ring, kwargs=dict(input_tensor=a, rank=g.choice([[2] + [1] * (order - 1) + [2], [1] * (order + 1), 2])))
    if which == "cp_to_tensor":
        facs = [g.arr((s, rank), rs=rs) for s in shape]
        w = g.choice([None, "ones", "rand"])
        wv = None if w is None else (np.ones(rank) if w == "ones" else g.arr((rank,), rs=rs, kinds=("c",)))
        f = g.choice(["cp_to_tensor", "cp_to_vec", "cp_to_unfolded", "cp_norm", "cp_mode_dot"])
        g.notes["f"] = f
        cp = (wv, facs if g.flag() else tuple(facs))
        if f == "cp_to_tensor":
            kw = dict(cp_tensor=cp)
            if g.flag(0.3):
                kw["mask"] = g.arr(shape, rs=rs, nonneg=True) > 0.3
            return dict(fn=tl.cp_to_tensor, kwargs=kw)
        if f == "cp_to_vec":
            return dict(fn=tl.cp_to_vec, kwargs=dict(cp_tensor=cp))
        if f == "cp_to_unfolded":
            return dict(fn=tl.cp_to_unfolded, kwargs=dict(cp_tensor=cp, mode=0))
        if f == "cp_norm":
            from tensorly.cp_tensor import cp_norm

            return dict(fn=cp_norm, kwargs=dict(cp_tensor=cp))
        from tensorly.cp_tensor import cp_mode_dot

        m = g.arr((2, shape[0]), rs=rs) if g.flag(0.6) else g.arr((shape[0],), rs=rs)
        return dict(fn=cp_mode_dot, kwargs=dict(cp_tensor=cp, matrix_or_vector=m, mode=0, keep_dim=g.flag(0.3), copy=True))
    if which == "tucker_to_tensor":
        core = g.arr((rank,) * order, rs=rs)
        facs = [g.arr((s, rank), rs=rs) for s in shape]
        tk = (core, facs if g.flag() else tuple(facs))
        f = g.choice(["tucker_to_tensor", "tucker_to_vec", "tucker_to_unfolded", "tucker_mode_dot", "tucker_normalize"])
        g.notes["f"] = f
        from tensorly import tucker_tensor as TT

        if f == "tucker_to_tensor":
            kw = dict(tucker_tensor=tk)
            if g.flag(0.4):
                kw["skip_factor"] = 0
            g.opt(kw, "transpose_factors", [True], 0.2)
            return dict(fn=TT.tucker_to_tensor, kwargs=kw)
        if f == "tucker_to_vec":
            return dict(fn=TT.tucker_to_vec, kwargs=dict(tucker_tensor=tk))
        if f == "tucker_to_unfolded":
            return dict(fn=TT.tucker_to_unfolded, kwargs=dict(tucker_tensor=tk, mode=0))
        if f == "tucker_normalize":
            return dict(fn=TT.tucker_normalize, kwargs=dict(tucker_tensor=tk))
        m = g.arr((2, shape[0]), rs=rs) if g.flag(0.5) else g.arr((shape[0],), rs=rs)
        return dict(fn=TT.tucker_mode_dot, kwargs=dict(tucker_tensor=tk, matrix_or_vector=m, mode=0, keep_dim=g.flag(0.4), copy=True))
    if which == "tt_to_tensor":
        r = [1] + [rank] * (order - 1) + [1]
        cores = [g.arr((r[i], shape[i], r[i + 1]), rs=rs, kinds=("c", "f")) for i in range(order)]
        f = g.choice(["tt_to_tensor", "tt_to_unfolded", "tt_to_vec", "pad_tt_rank"])
        g.notes["f"] = f
        from tensorly import tt_tensor as TTm

        fac = cores if g.flag() else tuple(cores)
        if f == "tt_to_tensor":
            return dict(fn=TTm.tt_to_tensor, kwargs=dict(factors=fac))
        if f == "tt_to_unfolded":
            return dict(fn=TTm.tt_to_unfolded, kwargs=dict(factors=fac, mode=0))
        if f == "tt_to_vec":
            return dict(fn=TTm.tt_to_vec, kwargs=dict(factors=fac))
        return dict(fn=TTm.pad_tt_rank, kwargs=dict(factor_list=fac, n_padding=g.choice([1, 2]), pad_boundaries=g.flag(0.3)))
    if which == "tr_to_tensor":
        r = [2] + [rank] * (order - 1) + [2]
        cores = [g.arr((r[i], shape[i], r[i + 1]), rs=rs, kinds=("c", "f")) for i in range(order)]
        from tensorly import tr_tensor as TRm

        f = g.choice(["tr_to_tensor", "tr_to_unfolded", "tr_to_vec"])
        g.notes["f"] = f
        fac = cores if g.flag() else tuple(cores)
        if f == "tr_to_tensor":
            return dict(fn=TRm.tr_to_tensor, kwargs=dict(factors=fac))
        if f == "tr_to_unfolded":
            return dict(fn=TRm.tr_to_unfolded, kwargs=dict(factors=fac, mode=0))
        return dict(fn=TRm.tr_to_vec, kwargs=dict(factors=fac))
    if which == "cp_normalize":
        facs = [g.arr((s, rank), rs=rs) for s in shape]
        return dict(fn=tl.cp_normalize, kwargs=dict(cp_tensor=(None, facs)))
    if which == "robust_pca":
        kw = dict(X=a, n_iter_max=2)
        if g.flag(0.3):
            kw["mask"] = g.arr(shape, rs=rs, nonneg=True) > 0.3
        return dict(fn=D.robust_pca, kwargs=kw)
    # norms and reductions through the backend
    f = g.choice(["norm1", "norm2", "norminf", "norm_axis", "sum", "clip", "sort", "argmax"])
    g.notes["f"] = f
    if f.startswith("norm"):
        kw = dict(tensor=a, order={"norm1": 1, "norm2": 2, "norminf": "inf", "norm_axis": 2}[f])
        if f == "norm_axis":
            kw["axis"] = 0
        return dict(fn=tl.norm, kwargs=kw)
    if f == "sum":
        return dict(fn=tl.sum, kwargs=dict(tensor=a, axis=0))
    if f == "clip":
        return dict(fn=tl.clip, kwargs=dict(tensor=a, a_min=0.1, a_max=0.5))
    if f == "sort":
        return dict(fn=tl.sort, kwargs=dict(tensor=a, axis=0))
    return dict(fn=tl.argmax, kwargs=dict(tensor=a, axis=0))


split_entry("loworder", e_loworder, _LOWORDER, deterministic=True)


# ---- the public rank validators, with the shape given as a *list* (the decompositions pass tuples) (round 13)
def e_validate_rank(g, which):
    import tensorly as tl

    g.notes["which"] = which
    shp = g.choice([[3, 4, 2], [4, 3, 3], [6, 7, 8], [2, 3, 2, 2], [4, 3], [5]])
    shape = shp if g.flag(0.7) else tuple(shp)
    nd = len(shp)
    rank = g.choice(["same", 0.5, 0.1, 1.5, -0.5, 2, 0, [2] * nd, [2] * (nd + 1), (1,) + (2,) * (nd - 1) + (1,), 1.0, None])
    kw = dict(tensor_shape=shape)
    if rank is not None:
        kw["rank"] = rank
    g.opt(kw, "rounding", ["floor", "ceil", "bogus"], 0.4)
    if which == "cp":
        return dict(fn=tl.cp_tensor.validate_cp_rank, kwargs=kw)
    if which == "tucker":
        if g.flag(0.6):
            kw["fixed_modes"] = g.choice([[0], [nd - 1], [0, nd - 1], list(range(nd)), [-1], [1, -7], (0,), [], [0, 0]])
        return dict(fn=tl.tucker_tensor.validate_tucker_rank, kwargs=kw)
    if which == "tt":
        g.opt(kw, "constant_rank", [True], 0.3)
        g.opt(kw, "allow_overparametrization", [False], 0.3)
        return dict(fn=tl.tt_tensor.validate_tt_rank, kwargs=kw)
    if which == "tr":
        return dict(fn=tl.tr_tensor.validate_tr_rank, kwargs=kw)
    kw.pop("rounding", None)
    kw["tensorized_shape"] = kw.pop("tensor_shape")
    if g.flag(0.85):
        ts = g.choice([[2, 2, 3, 3], [2, 3, 2, 3], [2, 2]])
        kw["tensorized_shape"] = ts if g.flag(0.7) else tuple(ts)
    return dict(fn=tl.tt_matrix.validate_tt_matrix_rank, kwargs=kw)


split_entry("validate_rank", e_validate_rank, ["cp", "tucker", "tt", "tr", "tt_matrix"], deterministic=True)
