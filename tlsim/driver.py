"""Batch driver shared by the three property checks.

A property module provides:
  PROP, LEVEL, QUICK_RUNS, CHUNK, ASSUMPTIONS, COMPONENTS
  worker((seed, lo, hi, want_samples)) -> dict(cnt, viols=[(run, fingerprint, text, rec)], samples, <sets>)
  SETS: names of set-valued keys in the worker result to union
  minimise(rec, fingerprint) -> rec ; make_replay(rec, fingerprint, seed, run) -> dict
  coverage(agg) -> dict with evaluations / distinct_nontrivial / rule (+extras)
  digests(seed, lo, hi) -> list[str]        (determinism self-test)
"""
import json
import os
import subprocess
import sys
import time

from . import core
from .core import Counter, HarnessError


def _fresh_env(hashseed):
    e = dict(os.environ)
    e["PYTHONHASHSEED"] = str(hashseed)
    e["VERIF_NO_REEXEC"] = "1"
    return e


def fresh_digests_start(prop, seed, lo, hi, hashseed):
    cmd = [sys.executable, "-m", "tlsim", "digest", prop, str(seed), str(lo), str(hi)]
    return subprocess.Popen(cmd, cwd=core.VERIF_DIR, env=_fresh_env(hashseed), stdout=subprocess.PIPE, stderr=subprocess.PIPE, text=True)


def fresh_digests_wait(p):
    try:
        out, err = p.communicate(timeout=900)
    except subprocess.TimeoutExpired:
        p.kill()
        raise HarnessError("digest subprocess timed out")
    if p.returncode != 0:
        raise HarnessError(f"digest subprocess failed: {err[-2000:]}")
    return json.loads(out.strip().splitlines()[-1])


def _minimise_job(args):
    mod, rec, fp = args
    return mod.minimise(rec, fp)


def _digests_job(args):
    mod, seed, lo, hi = args
    return mod.digests(seed, lo, hi)


def determinism_check(mod, seed, n, hashseed=12345):
    """Runs 0..n-1 twice: in a forked child of the driver, and (concurrently) in a fresh interpreter
    under another PYTHONHASHSEED; compares the event-log digests and verdicts run by run.
    The parent never executes library code itself (children are forked from a clean state)."""
    p = fresh_digests_start(mod.PROP, seed, 0, n, hashseed)
    try:
        a = core.in_child(_digests_job, (mod, seed, 0, n), 900)
    except BaseException:
        p.kill()
        raise
    b = fresh_digests_wait(p)
    bad = [i for i in range(n) if a[i] != b[i]]
    return {"runs_compared": n, "mismatches": len(bad), "first_mismatch": bad[:3], "other_pythonhashseed": hashseed}


def fresh_mkreplay(prop, job, dst):
    """Build the replay file in a fresh interpreter (so its digest is that of a clean process)."""
    src = dst + ".job"
    core.write_json(src, job)
    cmd = [sys.executable, "-m", "tlsim", "mkreplay", prop, src, dst]
    p = subprocess.run(cmd, cwd=core.VERIF_DIR, env=_fresh_env(11), capture_output=True, text=True, timeout=900)
    try:
        os.remove(src)
    except OSError:
        pass
    if p.returncode not in (0, 3):
        raise HarnessError(f"mkreplay failed: {(p.stdout + p.stderr)[-1500:]}")
    return p.returncode == 0


def fresh_replay(path):
    """Replay in a fresh process; True if it reproduces exactly."""
    cmd = [sys.executable, "-m", "tlsim", "replay", path]
    p = subprocess.run(cmd, cwd=core.VERIF_DIR, env=_fresh_env(7), capture_output=True, text=True, timeout=900)
    return p.returncode == 1 and "REPRODUCED" in p.stdout, (p.stdout + p.stderr)[-1500:]


def drive(mod, tier):
    t0 = time.time()
    seed = core.verif_seed()
    nj = core.jobs()
    prop = mod.PROP
    os.environ["VERIF_TIER_INTERNAL"] = tier
    known = core.known_for(prop)
    agg = {"cnt": Counter(), "samples": [], "viols": []}
    for s in mod.SETS:
        agg[s] = set()
    per_fp = Counter()

    def absorb(res):
        agg["cnt"].merge(res["cnt"])
        for s in mod.SETS:
            agg[s] |= res[s]
        for s in res["samples"]:
            if len(agg["samples"]) < 3:
                agg["samples"].append(s)
        agg["viols"].extend(res["viols"])
        per_fp.merge(res.get("per_oracle", {}))

    chunk = mod.CHUNK
    det = None
    try:
        det = determinism_check(mod, seed, mod.DET_RUNS)
        if det["mismatches"]:
            if getattr(mod, "DET_STRICT", True):
                print(f"HARNESS-ERROR property={prop} determinism self-test failed: {det}")
                return core.EXIT_HARNESS
            # C16: irreproducible library results are the very thing the property forbids; go on, and let the
            # batch show whether a violation explains the mismatch (if none does, this is a harness error)
            print(f"NOTE property={prop} determinism self-test: {det['mismatches']} of {det['runs_compared']} runs differ between two processes")
        if tier == "quick":
            total = core.env_int("VERIF_RUNS", mod.QUICK_RUNS)
            chunks = [(seed, lo, min(lo + chunk, total), 1 if lo == 0 else 0) for lo in range(0, total, chunk)]
            for res in core.pool_map(mod.worker, chunks, nj, mod.CHUNK_TIMEOUT):
                absorb(res)
        else:
            budget = core.Budget(core.env_int("VERIF_BUDGET_S", mod.THOROUGH_S))
            lo = 0
            while True:
                wave = []
                for _ in range(nj * 2):
                    wave.append((seed, lo, lo + chunk, 1 if lo == 0 else 0))
                    lo += chunk
                for res in core.pool_map(mod.worker, wave, nj, mod.CHUNK_TIMEOUT):
                    absorb(res)
                if budget.left() <= 0:
                    break
                # stop early when a wave would overrun the budget
                per_wave = budget.elapsed() / max(1, lo // (chunk * nj * 2))
                if budget.left() < per_wave * 0.5:
                    break
    except HarnessError as e:
        print(f"HARNESS-ERROR property={prop} {e}")
        return core.EXIT_HARNESS

    # ---- violations: group by fingerprint, minimise one example each
    by_fp = {}
    for run, fp, text, rec in sorted(agg["viols"], key=lambda v: v[0]):
        by_fp.setdefault(fp, (run, text, rec))
    new = 0
    harness_err = False
    reported = []
    n_min = 0
    n_new = 0
    MAX_MIN = core.env_int("VERIF_MAX_MINIMISE", 6)  # fingerprints minimised in full
    MAX_REPORT = core.env_int("VERIF_MAX_REPORT", 25)  # fingerprints reported with their own replay file
    t_report = time.time()
    for fp in sorted(by_fp, key=lambda f: (by_fp[f][0], f)):
        run, text, rec = by_fp[fp]
        if fp in known:
            print(f"KNOWN-FINDING: property={prop} {fp}: {known[fp].get('what', text)} (seen in {per_fp.get(fp, 1)} runs, first run {run})")
            reported.append({"fingerprint": fp, "status": "known", "runs": per_fp.get(fp, 1)})
            continue
        n_new += 1
        if n_new > MAX_REPORT:
            new += 1
            reported.append({"fingerprint": fp, "status": "new-not-minimised", "runs": per_fp.get(fp, 1)})
            continue
        path = core.replay_path(prop, seed, run, "-" + "".join(c if c.isalnum() else "_" for c in fp)[:60])
        try:
            small = None
            if n_min < MAX_MIN and time.time() - t_report < 600:
                n_min += 1
                try:
                    small = core.in_child(_minimise_job, (mod, rec, fp), 900)
                except HarnessError:
                    small = None  # e.g. needs earlier calls in the same process: fall through
            made = small is not None and fresh_mkreplay(prop, dict(rec=small, fp=fp, seed=seed, run=run), path)
            if not made:
                made = fresh_mkreplay(prop, dict(rec=rec, fp=fp, seed=seed, run=run), path)
            if not made:
                # the violation needs the calls made by earlier runs of the same chunk (hidden process state)
                lo = (run // chunk) * chunk
                made = fresh_mkreplay(prop, dict(prefix=dict(seed=seed, lo=lo, run=run, tier=tier), fp=fp, text=text), path)
            if not made:
                raise HarnessError("violation seen in the batch could not be reproduced in a fresh process")
            with open(path) as f:
                rp = json.load(f)
        except HarnessError as e:
            print(f"HARNESS-ERROR property={prop} could not build a replay for {fp}: {e}")
            harness_err = True
            continue
        ok, out = fresh_replay(path)
        if not ok:
            print(f"HARNESS-ERROR property={prop} violation {fp} did not replay in a fresh process: {out}")
            harness_err = True
            continue
        new += 1
        print(f"VIOLATION property={prop} replay={path}")
        print(f"  fingerprint={fp} :: {rp.get('violation', text)} (seen in {per_fp.get(fp, 1)} runs)")
        reported.append({"fingerprint": fp, "status": "new", "runs": per_fp.get(fp, 1), "replay": path})

    if n_new > MAX_REPORT:
        print(f"  (+{n_new - MAX_REPORT} further new fingerprint(s) counted but not written out individually: "
              + ", ".join(r["fingerprint"] for r in reported if r["status"] == "new-not-minimised")[:600] + ")")
    wall = time.time() - t0
    cov = mod.coverage(agg, wall)
    cov["samples"] = agg["samples"] or [{"note": "no sample collected"}]
    cov["determinism_selftest"] = det
    cov["findings_reported"] = reported
    cov["jobs"] = nj
    cov["components"] = mod.COMPONENTS
    core.write_evidence(prop, tier, seed, mod.LEVEL, cov, mod.ASSUMPTIONS, wall, new)
    runs = agg["cnt"].get("runs", 0)
    print(
        f"{prop} {tier}: {runs} runs in {wall:.1f}s ({runs / max(wall, 1e-9) * 3600:.0f}/h), "
        f"{new} new violation fingerprint(s), {sum(1 for r in reported if r['status'] == 'known')} known finding(s)"
    )
    if new:
        # confirmed, replayable violations stand even if some other fingerprint could not be replayed
        return core.EXIT_VIOLATION
    if harness_err:
        return core.EXIT_HARNESS
    if det and det.get("mismatches"):
        print(f"HARNESS-ERROR property={prop} determinism self-test failed and no violation explains it: {det}")
        return core.EXIT_HARNESS
    return core.EXIT_OK
