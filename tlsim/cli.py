"""vcheck command line:  <C15|C16|C17> [--tier quick|thorough] | replay <file> | digest ... | setup"""
import importlib
import json
import os
import sys

from . import core

MODS = {"C17": "c17", "C16": "c16", "C15": "c15"}


def _mod(prop):
    return importlib.import_module("." + MODS[prop], __package__)


def main(argv):
    if not argv:
        print(__doc__)
        return 2
    cmd = argv[0]
    if cmd == "setup":
        tl = core.use_repo()
        import numpy, scipy  # noqa

        print("setup ok: tensorly", tl.__version__, "from", core.REPO, "numpy", numpy.__version__)
        return 0
    if cmd == "digest":
        prop, seed, lo, hi = argv[1], int(argv[2]), int(argv[3]), int(argv[4])
        print(json.dumps(_mod(prop).digests(seed, lo, hi)))
        return 0
    if cmd == "mkreplay":
        # build a replay file in a fresh process: exit 0 and file written iff the violation shows here
        prop, src, dst = argv[1], argv[2], argv[3]
        with open(src) as f:
            job = json.load(f)
        mod = _mod(prop)
        if job.get("prefix"):
            pf = job["prefix"]
            os.environ["VERIF_TIER_INTERNAL"] = pf.get("tier", "quick")
            last = mod.digests(pf["seed"], pf["lo"], pf["run"] + 1)[-1]
            fps = last.split(":", 1)[1].split(",")
            if job["fp"] not in fps:
                return 3
            core.write_json(dst, {"property": prop, "oracle": job["fp"], "verif_seed": pf["seed"], "run": pf["run"],
                                  "violation": job.get("text", ""), "prefix": dict(pf, expect=last),
                                  "note": "the violation depends on calls made earlier in the same process: the replay re-executes runs lo..run of the batch in order in one fresh process",
                                  "schedule": [], "faults": []})
            return 0
        rp = mod.make_replay(job["rec"], job["fp"], job["seed"], job["run"])
        if job["fp"] not in (rp.get("all_oracles") or []):
            return 3
        rp["oracle"] = job["fp"]
        core.write_json(dst, rp)
        return 0
    if cmd == "replay":
        path = argv[1]
        with open(path) as f:
            head = json.load(f)
        prop = head["property"]
        try:
            if head.get("prefix"):
                pf = head["prefix"]
                os.environ["VERIF_TIER_INTERNAL"] = pf.get("tier", "quick")
                last = _mod(prop).digests(pf["seed"], pf["lo"], pf["run"] + 1)[-1]
                ok = last == pf["expect"] and head["oracle"] in last.split(":", 1)[1].split(",")
                msg = f"replayed runs {pf['lo']}..{pf['run']}: {last} expected {pf['expect']}"
            else:
                ok, msg = _mod(prop).replay_file(path)
        except core.HarnessError as e:
            print(f"HARNESS-ERROR property={prop} {e}")
            return core.EXIT_HARNESS
        print(msg)
        if ok:
            print(f"REPRODUCED\nVIOLATION property={prop} replay={path}")
            return core.EXIT_VIOLATION
        print("NOT-REPRODUCED")
        return core.EXIT_OK
    if cmd in ("mutants", "seeded"):
        from . import mutants

        return (mutants.main_mutants if cmd == "mutants" else mutants.main_seeded)(argv[1:])
    if cmd in MODS:
        tier = os.environ.get("VERIF_TIER", "quick")
        if "--tier" in argv:
            tier = argv[argv.index("--tier") + 1]
        from . import driver

        return driver.drive(_mod(cmd), tier)
    print("unknown command", cmd)
    return 2
