"""vcheck command line:  <C15|C16|C17> [--tier quick|thorough] | replay <file> | digest ... | setup"""
import importlib
import json
import os
import sys

from . import core

MODS = {"C17": "c17", "C16": "c16", "C15": "c15"}


def _mod(prop):
    return importlib.import_module("." + MODS[prop], __package__)


def main(argv):
    if not argv:
        print(__doc__)
        return 2
    cmd = argv[0]
    if cmd == "setup":
        tl = core.use_repo()
        import numpy, scipy  # noqa

        print("setup ok: tensorly", tl.__version__, "from", core.REPO, "numpy", numpy.__version__)
        return 0
    if cmd == "digest":
        prop, seed, lo, hi = argv[1], int(argv[2]), int(argv[3]), int(argv[4])
        print(json.dumps(_mod(prop).digests(seed, lo, hi)))
        return 0
    if cmd == "replay":
        path = argv[1]
        with open(path) as f:
            prop = json.load(f)["property"]
        try:
            ok, msg = _mod(prop).replay_file(path)
        except core.HarnessError as e:
            print(f"HARNESS-ERROR property={prop} {e}")
            return core.EXIT_HARNESS
        print(msg)
        if ok:
            print(f"REPRODUCED\nVIOLATION property={prop} replay={path}")
            return core.EXIT_VIOLATION
        print("NOT-REPRODUCED")
        return core.EXIT_OK
    if cmd in MODS:
        tier = os.environ.get("VERIF_TIER", "quick")
        if "--tier" in argv:
            tier = argv[argv.index("--tier") + 1]
        from . import driver

        return driver.drive(_mod(cmd), tier)
    print("unknown command", cmd)
    return 2
