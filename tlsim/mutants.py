"""Sensitivity self-test: deliberate property-breaking edits of tensorly.

Each mutant is a textual substitution applied to a scratch copy of VERIF_REPO's `tensorly`
package (outside /repo and /verif, removed as soon as the mutant has been judged).  The
quick check of the mutant's property is run with VERIF_REPO=<copy>; it must exit 1 with a
replayable VIOLATION.  Seeded changes written by independent sub-agents live in
/verif/seeded/<id>/patch.diff and are run the same way (`vcheck seeded`).
"""
import json
import os
import shutil
import subprocess
import sys
import tempfile
import time

from . import core

BE = "tensorly/backend/__init__.py"
TA = "tensorly/tenalg/__init__.py"

MUTANTS = [
    # ------------------------------------------------------------------ C17
    dict(id="m17_no_finally", prop="C17", file=BE, note="backend_context without try/finally: exceptional exit does not restore",
         old="        try:\n            yield\n        finally:\n            cls.set_backend(_old_backend, local_threadsafe=local_threadsafe)",
         new="        yield\n        cls.set_backend(_old_backend, local_threadsafe=local_threadsafe)"),
    dict(id="m17_global_restore", prop="C17", file=BE, note="context exit restores with the global flavour (the original defect)",
         old="            cls.set_backend(_old_backend, local_threadsafe=local_threadsafe)",
         new="            cls.set_backend(_old_backend)"),
    dict(id="m17_ignore_local", prop="C17", file=BE, note="set_backend ignores local_threadsafe",
         old="        if not local_threadsafe:\n            cls._default_backend = backend.backend_name\n            cls._backend = backend",
         new="        cls._default_backend = backend.backend_name\n        cls._backend = backend"),
    dict(id="m17_reject_clears_tl", prop="C17", file=BE, note="a rejected selection drops the thread's own selection before validating",
         old="        if isinstance(backend, str):\n            # Backend is a string",
         new="        if isinstance(backend, str):\n            cls._THREAD_LOCAL_DATA.__dict__.pop(\"backend\", None)\n            # Backend is a string"),
    dict(id="m17_get_ignores_tl", prop="C17", file=BE, note="get_backend reads the shared default only",
         old='        return cls._THREAD_LOCAL_DATA.__dict__.get("backend", cls._backend).backend_name',
         new="        return cls._backend.backend_name"),
    dict(id="m17_dispatch_default_only", prop="C17", file=BE, note="dispatched functions resolve the shared default, not the thread's backend",
         old='            return getattr(\n                cls._THREAD_LOCAL_DATA.__dict__.get("backend", cls._backend), name\n            )(*args, **kwargs)',
         new="            return getattr(cls._backend, name)(*args, **kwargs)"),
    dict(id="m17_exit_restores_default", prop="C17", file=BE, note="context remembers the shared default instead of the entering thread's backend",
         old="        _old_backend = cls.current_backend()", new="        _old_backend = cls._backend"),
    dict(id="m17_tenalg_name_check", prop="C17", file=BE, note="revert of fix c9dc04b: tenalg instances treated as names (context exit raises)",
         old="        if isinstance(backend, str):", new="        if not isinstance(backend, Backend):"),
    dict(id="m17_default_written_first", prop="C17", file=BE, note="thread-local selection publishes the default first and rolls it back afterwards (race window)",
         old="        cls._THREAD_LOCAL_DATA.backend = backend\n        if not local_threadsafe:\n            cls._default_backend = backend.backend_name\n            cls._backend = backend",
         new="        previous = cls._backend\n        cls._backend = backend\n        cls._THREAD_LOCAL_DATA.backend = backend\n        if local_threadsafe:\n            cls._backend = previous\n        else:\n            cls._default_backend = backend.backend_name"),
    dict(id="m17_static_subset", prop="C17", file=BE, note="a few hot functions (tensor, dot, reshape) are bound statically to the backend current at import time 'for speed'",
         old="        for name in cls._attributes:\n            if hasattr(cls, name):\n                delattr(cls, name)\n            setattr(cls, name, dynamically_dispatched_class_attribute(name))\n\n    @classmethod\n    def use_static_dispatch(cls):",
         new="        for name in cls._attributes:\n            if hasattr(cls, name):\n                delattr(cls, name)\n            setattr(cls, name, dynamically_dispatched_class_attribute(name))\n        for name in (\"tensor\", \"dot\", \"reshape\"):\n            if name in cls._functions:\n                setattr(cls, name, staticmethod(getattr(cls.current_backend(), name)))\n\n    @classmethod\n    def use_static_dispatch(cls):"),
    # ------------------------------------------------------------------ C16
    dict(id="m16_tucker_init_drops_rng", prop="C16", file="tensorly/decomposition/_tucker.py", note="random tucker init draws from the global RNG",
         old="        rng = tl.check_random_state(random_state)\n        core = tl.tensor(", new="        rng = tl.check_random_state(None)\n        core = tl.tensor("),
    dict(id="m16_check_random_state_seeds_global", prop="C16", file="tensorly/backend/core.py", note="check_random_state(int) seeds and returns the global generator",
         old="            return np.random.RandomState(seed)", new="            np.random.seed(seed)\n            return np.random.mtrand._rand"),
    dict(id="m16_constrained_random_unseeded", prop="C16", file="tensorly/decomposition/_constrained_cp.py", note="revert of fix: constrained random init ignores the generator",
         old="            random_state=rng,\n            **tl.context(tensor),\n        )", new="            **tl.context(tensor),\n        )"),
    dict(id="m16_cp_svd_init_unseeded", prop="C16", file="tensorly/decomposition/_cp.py", note="revert of fix: SVD init does not forward random_state",
         old="                n_iter_mask_imputation=svd_mask_repeats,\n                random_state=rng,\n", new="                n_iter_mask_imputation=svd_mask_repeats,\n"),
    dict(id="m16_tucker_random_init_scoped_global", prop="C16", file="tensorly/decomposition/_tucker.py",
         note="random tucker init seeds the GLOBAL generator, draws everything in one block of lines that makes no backend call, and restores the global state: only interference between those source lines exposes it",
         old="        rng = tl.check_random_state(random_state)\n        core = tl.tensor(\n            rng.random_sample([rank[index] for index in range(len(modes))]) + 0.01,",
         new="        rng = tl.check_random_state(random_state)\n        if isinstance(random_state, int):\n            import numpy as _np\n\n            _saved = _np.random.get_state()\n            _np.random.seed(random_state)\n            _n = sum(tensor.shape[mode] * rank[index] for index, mode in enumerate(modes))\n            _n += int(_np.prod([rank[index] for index in range(len(modes))]))\n            _draws = _np.random.random_sample(_n)\n            _np.random.set_state(_saved)\n\n            class _Replay:\n                def __init__(self, d):\n                    self.d, self.i = d, 0\n\n                def random_sample(self, shape):\n                    k = int(_np.prod(shape))\n                    out = self.d[self.i : self.i + k].reshape(shape)\n                    self.i += k\n                    return out\n\n            rng = _Replay(_draws)\n        core = tl.tensor(\n            rng.random_sample([rank[index] for index in range(len(modes))]) + 0.01,"),
    dict(id="m16_random_cp_orthogonal_global", prop="C16", file="tensorly/random/base.py", note="random_cp(orthogonal=True) uses the global RNG for its QR seed matrix",
         old=None, new=None, dynamic="random_cp_orth"),
    # ------------------------------------------------------------------ C15
    dict(id="m15_tucker_init_list", prop="C15", file="tensorly/decomposition/_tucker.py", note="revert of fix: tucker works on the caller's factor list",
         old="        (core, factors) = init\n        factors = list(factors)\n", new="        (core, factors) = init\n"),
    dict(id="m15_cp_init_shared", prop="C15", file="tensorly/decomposition/_cp.py", note="revert of fix: unit-weight CP init shared with the caller",
         old="                kt = CPTensor((None, factors)).cp_copy()", new="                kt = CPTensor((None, factors))"),
    dict(id="m15_fixed_modes", prop="C15", file="tensorly/decomposition/_cp.py", note="revert of fix: fixed_modes.remove on the caller's list",
         old="    else:\n        fixed_modes = list(fixed_modes)\n\n    if fixed_modes == list(range(tl.ndim(tensor))):", new="\n    if fixed_modes == list(range(tl.ndim(tensor))):"),
    dict(id="m15_rpca_mask_inplace", prop="C15", file="tensorly/decomposition/robust_decomposition.py", note="robust_pca zeroes the unobserved entries of the caller's X in place (they are never read afterwards)",
         old="        mask = T.tensor(mask, **T.context(X))", new="        mask = T.tensor(mask, **T.context(X))\n        X *= mask"),
    dict(id="m15_mse_window_no_backend_calls", prop="C15", file="tensorly/metrics/regression.py",
         note="MSE works in place on y_true with plain NumPy operators and restores it afterwards: no backend call inside the window, only an interrupt between two source lines exposes it",
         old="    return T.mean((y_true - y_pred) ** 2, axis=axis)",
         new="    if not (T.is_tensor(y_true) and y_true.dtype.kind == 'f' and y_true.flags.writeable) or y_true is y_pred:\n        return T.mean((y_true - y_pred) ** 2, axis=axis)\n    saved = y_true.copy()\n    y_true -= y_pred\n    y_true **= 2\n    out = y_true.mean(axis=axis)\n    y_true[...] = saved\n    return out"),
    dict(id="m15_parafac_mask_restore", prop="C15", file="tensorly/decomposition/_cp.py", note="parafac imputes masked entries into the caller's tensor and restores it only on normal return",
         old=None, new=None, dynamic="parafac_mask_restore"),
]


def _dynamic(kind, src):
    if kind == "random_cp_orth":
        old = "    if orthogonal:\n        factors = [T.qr(factor)[0] for factor in factors]\n\n    if full:\n        return cp_to_tensor((weights, factors))"
        if src.count(old) != 1:
            return None
        new = ("    if orthogonal:\n        factors = [T.qr(factor + 1e-9 * np.random.random_sample(T.shape(factor)))[0] for factor in factors]\n\n"
               "    if full:\n        return cp_to_tensor((weights, factors))")
        return src.replace(old, new)
    if kind == "parafac_mask_restore":
        a = "    rec_errors = []\n    norm_tensor = tl.norm(tensor, 2)\n    if l2_reg:"
        if a not in src:
            return None
        src = src.replace(a, "    rec_errors = []\n    _orig_tensor = None\n    if mask is not None and tl.is_tensor(tensor) and tensor.flags.writeable:\n        _orig_tensor = (tensor, tl.copy(tensor))\n    norm_tensor = tl.norm(tensor, 2)\n    if l2_reg:")
        b = "                tensor = tensor * mask + tl.cp_to_tensor(\n                    (weights, factors), mask=1 - mask\n                )"
        if b not in src:
            return None
        src = src.replace(b, "                tensor[...] = tensor * mask + tl.cp_to_tensor(\n                    (weights, factors), mask=1 - mask\n                )")
        c = "    cp_tensor = CPTensor((weights, factors))\n\n    if sparsity:\n        sparse_component = sparsify_tensor("
        if c not in src:
            return None
        return src.replace(c, "    if _orig_tensor is not None:\n        _orig_tensor[0][...] = _orig_tensor[1]\n    cp_tensor = CPTensor((weights, factors))\n\n    if sparsity:\n        sparse_component = sparsify_tensor(")
    return None


def scratch_copy():
    base = "/dev/shm" if os.path.isdir("/dev/shm") else tempfile.gettempdir()
    d = tempfile.mkdtemp(prefix="tlmut_", dir=base)
    shutil.copytree(os.path.join(core.REPO, "tensorly"), os.path.join(d, "tensorly"), ignore=shutil.ignore_patterns("__pycache__", "*.pyc", "data"))
    # datasets need their data dir to import; link instead of copying
    data = os.path.join(core.REPO, "tensorly", "datasets", "data")
    if os.path.isdir(data):
        os.symlink(data, os.path.join(d, "tensorly", "datasets", "data"))
    return d


def run_check(prop, repo_dir, runs=None, seed=None):
    env = dict(os.environ)
    env["VERIF_REPO"] = repo_dir
    env["VERIF_REPLAY_DIR"] = os.path.join(repo_dir, "replays")
    env["VERIF_EVIDENCE_DIR"] = os.path.join(repo_dir, "evidence")
    if runs:
        env["VERIF_RUNS"] = str(runs)
    if seed is not None:
        env["VERIF_SEED"] = str(seed)
    t0 = time.time()
    p = subprocess.run([os.path.join(core.VERIF_DIR, "bin", "vcheck"), prop, "--tier", "quick"], env=env, capture_output=True, text=True, timeout=3000)
    lines = [l for l in p.stdout.splitlines() if l.startswith(("VIOLATION", "  fingerprint", "HARNESS", "KNOWN"))]
    return p.returncode, lines, time.time() - t0, p.stdout[-1500:] + p.stderr[-1500:]


def judge(name, prop, d, results):
    rc, lines, dt, tail = run_check(prop, d)
    viol = [l for l in lines if l.startswith("VIOLATION")]
    fps = [l.strip() for l in lines if l.startswith("  fingerprint")]
    status = "CAUGHT" if rc == 1 and viol else ("HARNESS-ERROR" if rc == 2 else "MISSED")
    print(f"{status:14s} {name:34s} {prop} rc={rc} {dt:5.0f}s  {fps[0][:150] if fps else ''}")
    if status != "CAUGHT":
        print("    ", tail.replace("\n", "\n     ")[-800:])
    results.append(dict(id=name, property=prop, status=status, rc=rc, seconds=round(dt, 1), fingerprints=fps[:6]))
    sys.stdout.flush()


def main_mutants(argv):
    only = set(argv)
    results = []
    for m in MUTANTS:
        if only and m["id"] not in only and m["prop"] not in only:
            continue
        d = scratch_copy()
        try:
            path = os.path.join(d, m["file"])
            src = open(path).read()
            if m.get("dynamic"):
                new = _dynamic(m["dynamic"], src)
            else:
                new = src.replace(m["old"], m["new"]) if src.count(m["old"]) == 1 else None
            if new is None or new == src:
                print(f"NOT-APPLICABLE {m['id']:34s} pattern not found exactly once in {m['file']}")
                results.append(dict(id=m["id"], property=m["prop"], status="NOT-APPLICABLE"))
                continue
            open(path, "w").write(new)
            judge(m["id"], m["prop"], d, results)
        finally:
            shutil.rmtree(d, ignore_errors=True)
    _merge_results("mutants.json", results, bool(only))
    bad = [r for r in results if r["status"] not in ("CAUGHT",)]
    return 0 if not bad else 1


def main_seeded(argv):
    """Run the quick check of each /verif/seeded/<id>/ change against a scratch copy with patch.diff applied."""
    root = os.path.join(core.VERIF_DIR, "seeded")
    only = set(argv)
    results = []
    for name in sorted(os.listdir(root)) if os.path.isdir(root) else []:
        if only and name not in only:
            continue
        meta_p = os.path.join(root, name, "meta.json")
        patch = os.path.join(root, name, "patch.diff")
        if not (os.path.exists(meta_p) and os.path.exists(patch)):
            continue
        meta = json.load(open(meta_p))
        d = scratch_copy()
        try:
            p = subprocess.run(["patch", "-p1", "-s", "-d", d, "-i", patch], capture_output=True, text=True)
            if p.returncode != 0:
                print(f"PATCH-FAILED   {name}: {p.stdout[-300:]}{p.stderr[-300:]}")
                results.append(dict(id=name, property=meta["property"], status="PATCH-FAILED"))
                continue
            judge(name, meta["property"], d, results)
        finally:
            shutil.rmtree(d, ignore_errors=True)
    _merge_results("seeded.json", results, bool(only))
    return 0 if all(r["status"] == "CAUGHT" for r in results) else 1


def _merge_results(fname, results, partial):
    path = os.path.join(core.VERIF_DIR, "evidence", fname)
    if partial and os.path.exists(path):
        old = {r["id"]: r for r in json.load(open(path)).get("results", [])}
        for r in results:
            old[r["id"]] = r
        results = [old[k] for k in sorted(old)]
    core.write_json(path, {"results": results, "note": "sensitivity table: quick check of the property run against a scratch copy of tensorly with the change applied; CAUGHT = exit 1 with a replayable VIOLATION"})
