import sys
import traceback


def _run():
    try:
        from .cli import main

        return main(sys.argv[1:])
    except SystemExit:
        raise
    except BaseException as e:  # any uncaught exception is a harness error: never exit 1
        traceback.print_exc()
        print(f"HARNESS-ERROR uncaught {type(e).__name__}: {e}")
        return 2


sys.exit(_run())
