from .cli import main
import sys

sys.exit(main(sys.argv[1:]))
