"""Reference model for C17 and a linearizability checker with micro-steps.

The model is a *concrete nondeterministic sequential specification*: exact where
the property speaks (P1..P5), a `choose` where it is silent.  One instance per
manager; the two managers are checked on disjoint sub-histories, which is how
"independently" is enforced (any cross-talk shows up as a violation in one of
them).

state = (D, sel, stack)
  D        shared default (a backend identity string such as "numpy", "jax", "jax@1")
  sel[t]   thread t's own selection or None (= follows D)
  stack[t] tuple of frames (c, s, local, De) pushed by context entry

Operations are sequences of atomic micro-steps taken somewhere inside the
operation's [invoke, return] interval:
  get/probe -> [obs]
  set ok    -> [set]                 set rejected -> [nop]
  enter ok  -> [push, set]           enter rejected -> [nop]
  exit      -> [pop]
`enter` is two steps because reading "my previous backend" and publishing the new
one are two distinct instants in any implementation and the property does not
demand that the pair be atomic with respect to other threads' global selections.
"""

MAX_NODES = 200000


def name_of(v):
    return v.split("@")[0]


def steps_of(op):
    k = op["op"]
    out = op["out"]
    if k in ("get", "probe", "attr", "cur"):
        return [("obs", k, out)]
    if k == "set":
        if out == "ok":
            return [("set", op["b"], op["local"])]
        return [("nop",)]
    if k == "enter":
        if out == "ok":
            return [("push", op["local"]), ("set", op["b"], op["local"])]
        return [("nop",)]
    if k == "exit":
        return [("pop",)]
    raise ValueError(k)


def apply_step(state, t, step):
    """Yield successor states (possibly none if an observation contradicts the state)."""
    D, sel, stack = state
    kind = step[0]
    if kind == "nop":
        yield state
    elif kind == "obs":
        cur = sel[t] if sel[t] is not None else D
        want = step[2]
        got = name_of(cur) if step[1] in ("get", "attr") else cur
        if got == want:
            yield state
    elif kind == "set":
        b, local = step[1], step[2]
        nsel = sel[:t] + (b,) + sel[t + 1 :]
        yield (D if local else b, nsel, stack)
    elif kind == "push":
        cur = sel[t] if sel[t] is not None else D
        fr = (cur, sel[t], step[1], D)
        nst = stack[:t] + (stack[t] + (fr,),) + stack[t + 1 :]
        yield (D, sel, nst)
    elif kind == "pop":
        if not stack[t]:
            return
        c, s, local, De = stack[t][-1]
        nst = stack[:t] + (stack[t][:-1],) + stack[t + 1 :]
        sels = (s,) if s is not None else (None, c)
        Ds = (D,) if local else tuple(dict.fromkeys((D, c, De)))
        for ns in sels:
            nsel = sel[:t] + (ns,) + sel[t + 1 :]
            for nD in Ds:
                if ns is None and nD != c:
                    # "restores the entering thread's previous backend": right after the exit the thread must
                    # see c.  Going back to *following* the default is acceptable only when the default is c.
                    continue
                yield (nD, nsel, nst)
    else:
        raise ValueError(kind)


class Result:
    __slots__ = ("ok", "inconclusive", "nodes", "failing", "allowed", "states")

    def __init__(self):
        self.ok = False
        self.inconclusive = False
        self.nodes = 0
        self.failing = None
        self.allowed = None
        self.states = set()


def check(history, nthreads, D0, max_nodes=MAX_NODES):
    """history: list of completed ops of ONE manager, each with t, inv, ret, op, out...

    Returns Result.  `failing` is the op (index into history) with the smallest return
    stamp among those whose final micro-step no explored path ever managed to take.
    """
    res = Result()
    per = [[] for _ in range(nthreads)]
    for i, op in enumerate(history):
        per[op["t"]].append(i)
    for lst in per:
        lst.sort(key=lambda i: history[i]["inv"])
    steps = [steps_of(op) for op in history]
    # need[i][w] = how many ops of thread w returned before op i was invoked
    need = []
    for i, op in enumerate(history):
        row = []
        for w in range(nthreads):
            n = 0
            if w != op["t"]:
                for j in per[w]:
                    if history[j]["ret"] < op["inv"]:
                        n += 1
            row.append(n)
        need.append(row)

    done_ever = [False] * len(history)
    seen_at = [set() for _ in history]  # cur values seen when attempting an obs
    init = (D0, (None,) * nthreads, ((),) * nthreads)
    start = tuple((0, 0) for _ in range(nthreads))
    total = [len(l) for l in per]
    memo = set()
    stack = [(start, init)]
    found = False
    while stack:
        pos, state = stack.pop()
        key = (pos, state)
        if key in memo:
            continue
        memo.add(key)
        res.nodes += 1
        res.states.add(state[:2])
        if res.nodes > max_nodes:
            res.inconclusive = True
            break
        if all(pos[w][0] >= total[w] for w in range(nthreads)):
            found = True
            break
        # candidates ordered so the most "natural" linearisation (by invoke stamp) is tried first
        cands = []
        for w in range(nthreads):
            oi, si = pos[w]
            if oi >= total[w]:
                continue
            i = per[w][oi]
            if si == 0:
                nd = need[i]
                if any(pos[x][0] < nd[x] for x in range(nthreads)):
                    continue
            cands.append((history[i]["inv"], w, i, si))
        cands.sort(reverse=True)  # stack: last pushed is explored first
        for _, w, i, si in cands:
            st = steps[i][si]
            if st[0] == "obs":
                D, sel, _ = state
                seen_at[i].add(sel[w] if sel[w] is not None else D)
            last = si + 1 == len(steps[i])
            for ns in apply_step(state, w, st):
                if last:
                    done_ever[i] = True
                    npos = pos[:w] + ((pos[w][0] + 1, 0),) + pos[w + 1 :]
                else:
                    npos = pos[:w] + ((pos[w][0], si + 1),) + pos[w + 1 :]
                stack.append((npos, ns))
    if found:
        res.ok = True
        return res
    if res.inconclusive:
        return res
    cand = [i for i in range(len(history)) if not done_ever[i]]
    if cand:
        f = min(cand, key=lambda i: history[i]["ret"])
        res.failing = f
        res.allowed = sorted(seen_at[f])
    return res
