"""Baton-passing scheduler for real OS threads.

Sim-threads are real `threading.Thread`s (threading.local is keyed on them), but
at most one is ever runnable: each parks on its own semaphore and exactly one
holds the baton.  At every yield point the running thread asks the chooser who
runs next.  The *choice* is the only simulated thing; the code between two
yield points is the real code.

Yield points are (a) `sys.settrace` line events in frames whose file is in
`traced_files`, (b) explicit `yield_point()` calls (operation invoke/return,
backend-proxy events).
"""
import sys
import threading

from .core import HarnessError


ACTIVE = [None]  # the scheduler whose sim-threads are currently running (for cooperative locks)


class SimDeadlock(BaseException):
    """Every sim-thread is blocked on a lock: raised in the thread that detects it."""


class CoopLock:
    """Stand-in for a threading.Lock / RLock found on the system under test.

    Sim-threads are parked and released one at a time, so a *real* blocking acquire of a lock whose holder is
    parked would hang the simulation although a real execution would simply wait.  A contended acquire
    therefore yields the baton to another runnable sim-thread and retries when rescheduled; a timed acquire
    gives up after a few contended turns (simulated time, no real waiting)."""

    TIMED_TURNS = 3
    ALL = []  # every stand-in installed in this process

    def __init__(self, real):
        self._real = real
        self._kind = type(real)
        CoopLock.ALL.append(self)

    def leaked(self):
        """Called by the controller while no sim-thread exists: is the lock still held by a thread that ended?"""
        if self._real.acquire(False):
            self._real.release()
            return False
        return True

    def renew(self):
        """Harness recovery between runs: a lock left held by a finished thread is replaced by a fresh one."""
        self._real = threading.RLock() if self._kind is type(threading.RLock()) else threading.Lock()

    def acquire(self, blocking=True, timeout=-1):
        turns = 0
        while True:
            if self._real.acquire(False):
                return True
            if not blocking:
                return False
            sched = ACTIVE[0]
            if sched is None or threading.current_thread().name[:4] != "sim-" or sched.cur is None or not hasattr(sched.cur, "sem"):
                # outside the baton discipline (run reset, spawned children): nobody else is running, so a lock
                # that stays busy for a perceptible stretch of real time will never be released
                if self._real.acquire(True, 0.02 if timeout is None or timeout < 0 else min(timeout, 0.02)):
                    return True
                if timeout is not None and timeout >= 0:
                    return False
                raise SimDeadlock("a lock of the system under test is held and nobody is left to release it")
            turns += 1
            if timeout is not None and timeout >= 0 and turns > self.TIMED_TURNS:
                return False
            sched.yield_contended()

    def release(self):
        self._real.release()

    def locked(self):
        return self._real.locked() if hasattr(self._real, "locked") else False

    def __enter__(self):
        self.acquire()
        return self

    def __exit__(self, *exc):
        self.release()
        return False


class Chooser:
    """Decides who runs next.  Subclasses: RandomWalk, PCT, Sequential, Replay."""

    name = "abstract"

    def choose(self, yidx, cur, runnable, tag):
        raise NotImplementedError


def default_choice(cur, runnable):
    if cur is not None and cur in runnable:
        return cur
    return min(runnable)


class Sequential(Chooser):
    name = "sequential"

    def choose(self, yidx, cur, runnable, tag):
        return default_choice(cur, runnable)


class RandomWalk(Chooser):
    """Switch with probability p at every yield point."""

    name = "random"

    def __init__(self, rng, p):
        self.rng = rng
        self.p = p

    def choose(self, yidx, cur, runnable, tag):
        if cur is None or cur not in runnable:
            return runnable[self.rng.randrange(len(runnable))]
        if len(runnable) > 1 and self.rng.random() < self.p:
            others = [t for t in runnable if t != cur]
            return others[self.rng.randrange(len(others))]
        return cur


class PCT(Chooser):
    """Probabilistic concurrency testing: random priorities, d-1 priority change points."""

    name = "pct"

    def __init__(self, rng, nthreads, depth, est_steps):
        self.rng = rng
        prios = list(range(depth, depth + nthreads))
        rng.shuffle(prios)
        self.prio = {t: prios[t] for t in range(nthreads)}
        self.change = {}
        for i in range(depth - 1):
            self.change[rng.randrange(1, max(2, est_steps))] = depth - 1 - i

    def choose(self, yidx, cur, runnable, tag):
        if yidx in self.change and cur is not None:
            self.prio[cur] = self.change[yidx]
        return max(runnable, key=lambda t: (self.prio.get(t, 0), -t))


class Replay(Chooser):
    """Feeds back a sparse switch list [(yield_index, thread)]."""

    name = "replay"

    def __init__(self, switches):
        self.sw = {int(i): int(t) for i, t in switches}

    def choose(self, yidx, cur, runnable, tag):
        t = self.sw.get(yidx)
        if t is not None and t in runnable:
            return t
        return default_choice(cur, runnable)


class SimThread:
    __slots__ = ("id", "fn", "sem", "done", "gated", "os_thread", "error", "probe_hits", "local")

    def __init__(self, tid, fn, gated=False):
        self.id = tid
        self.fn = fn
        self.sem = threading.Semaphore(0)
        self.done = False
        self.gated = gated  # only runnable once every non-gated thread is done
        self.os_thread = None
        self.error = None
        self.probe_hits = []
        self.local = {}


class Scheduler:
    def __init__(self, chooser, traced_files=(), probe_dirs=None, step_cap=200000, log_lines=True):
        self.chooser = chooser
        self.traced = {f: short for f, short in traced_files}
        self.probe_dirs = probe_dirs or {}
        self._probe_cache = {}
        self.threads = []
        self.cur = None
        self.seq = 0  # global event sequence number
        self.yields = 0  # yield-point index (what schedules refer to)
        self.switches = []  # realised sparse schedule
        self.nswitch = 0
        self.log = []  # event log (for determinism digests)
        self.step_cap = step_cap
        self.aborted = None
        self.ctrl = threading.Semaphore(0)
        self.log_lines = log_lines
        self.line_hits = {}  # (file, line) -> count of switches landing there
        self.line_names = {}  # (file, line) -> function name
        self.strict_cap = True  # False: past the step cap the run simply continues without further pre-emption
        self.on_switch = None

    # ------------------------------------------------------------------ setup
    def add_thread(self, fn, gated=False):
        t = SimThread(len(self.threads), fn, gated)
        self.threads.append(t)
        return t

    def runnable(self):
        normal_left = any((not t.done) and (not t.gated) for t in self.threads)
        out = []
        for t in self.threads:
            if t.done:
                continue
            if t.gated and normal_left:
                continue
            out.append(t.id)
        return out

    # ------------------------------------------------------------------ running
    def _start(self, t):
        t.os_thread = threading.Thread(target=self._body, args=(t,), name=f"sim-{t.id}", daemon=True)
        t.os_thread.start()

    def run(self):
        ACTIVE[0] = self
        try:
            self._run()
        finally:
            ACTIVE[0] = None

    def _run(self):
        # gated threads model threads that are *created* after the others have ended (a fresh thread may then
        # get a recycled OS thread identifier): their OS thread is started only at that point
        for t in self.threads:
            if not t.gated:
                self._start(t)
        first = self._choose(None, ("start",))
        if first is not None and not self.threads[first].gated:
            self.cur = self.threads[first]
            self.cur.sem.release()
            self.ctrl.acquire()
        for t in self.threads:
            if t.gated:
                continue
            t.os_thread.join(60)
            if t.os_thread.is_alive():
                raise HarnessError("sim-thread did not terminate")
        for t in self.threads:
            if t.gated:
                self._start(t)
                self.cur = t
                t.sem.release()
                self.ctrl.acquire()
                t.os_thread.join(60)
                if t.os_thread.is_alive():
                    raise HarnessError("sim-thread did not terminate")
        if self.aborted and self.strict_cap:
            raise HarnessError(self.aborted)
        for t in self.threads:
            if t.error is not None:
                raise HarnessError(f"sim-thread {t.id} crashed: {t.error!r}") from t.error

    def _choose(self, cur, tag):
        r = self.runnable()
        if not r:
            return None
        yidx = self.yields
        self.yields += 1
        if self.aborted:
            nxt = default_choice(cur, r)
        else:
            nxt = self.chooser.choose(yidx, cur, r, tag)
            if nxt not in r:
                nxt = default_choice(cur, r)
        if nxt != default_choice(cur, r):
            self.switches.append((yidx, nxt))
        if nxt != cur and cur is not None:
            self.nswitch += 1  # pre-emptive switches only (not hand-over at thread end)
            if tag and tag[0] == "L":
                k = (tag[1], tag[2])
                self.line_hits[k] = self.line_hits.get(k, 0) + 1
        return nxt

    def _body(self, t):
        t.sem.acquire()
        try:
            if self.traced or self.probe_dirs:
                sys.settrace(self._gtrace)
            t.fn(t)
        except BaseException as e:  # harness bug or leaked exception
            t.error = e
        finally:
            sys.settrace(None)
            t.done = True
            nxt = self._choose(None, ("finish", t.id))
            if nxt is None or self.threads[nxt].gated or t.gated:
                # nothing left to run concurrently: hand back to the controller (which starts gated threads one by one)
                self.ctrl.release()
            else:
                self.cur = self.threads[nxt]
                self.cur.sem.release()

    def yield_point(self, tag):
        t = self.cur
        self.seq += 1
        if self.yields > self.step_cap and not self.aborted:
            self.aborted = f"step cap {self.step_cap} exceeded"
        nxt = self._choose(t.id, tag)
        if self.log_lines:
            self.log.append((self.seq, t.id, tag, nxt))
        if nxt != t.id:
            if self.on_switch is not None:
                self.on_switch(t.id, nxt, tag)
            self.cur = self.threads[nxt]
            self.cur.sem.release()
            t.sem.acquire()

    def yield_contended(self):
        """The running thread cannot proceed (lock held by a parked thread): run somebody else."""
        t = self.cur
        self.seq += 1
        self.contended = getattr(self, "contended", 0) + 1
        others = [i for i in self.runnable() if i != t.id]
        if not others or self.contended > 100000:
            raise SimDeadlock(f"sim-thread {t.id} waits for a lock and no other thread can run")
        yidx = self.yields
        self.yields += 1
        # deterministic: the next runnable thread after the current one (round robin)
        nxt = min((i for i in others if i > t.id), default=min(others))
        self.switches.append((yidx, nxt))
        self.nswitch += 1
        self.cur = self.threads[nxt]
        self.cur.sem.release()
        t.sem.acquire()

    def stamp(self):
        """A fresh global sequence number (for invoke/return stamps), no yield."""
        self.seq += 1
        return self.seq

    # ------------------------------------------------------------------ tracing
    def _gtrace(self, frame, event, arg):
        if event == "call":
            fn = frame.f_code.co_filename
            if fn in self.traced:
                return self._ltrace
            if self.probe_dirs:
                c = self._probe_cache.get(fn)
                if c is None:
                    c = ""
                    for d, name in self.probe_dirs.items():
                        if d in fn:
                            c = name
                            break
                    self._probe_cache[fn] = c
                if c:
                    self.cur.probe_hits.append(c)
        return None

    def _ltrace(self, frame, event, arg):
        if event == "line":
            co = frame.f_code
            short = self.traced[co.co_filename]
            if (short, frame.f_lineno) not in self.line_names:
                self.line_names[(short, frame.f_lineno)] = co.co_name
            self.yield_point(("L", short, frame.f_lineno))
        return self._ltrace
