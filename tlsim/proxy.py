"""Proxy backend: every backend call made by library code becomes a numbered event.

`SimBackend` is a NumpyBackend subclass registered under the name "numpy" (the registry
entry is restored immediately, so load_backend("numpy") still yields the stock class).
One instance gets an instance attribute per dispatched function wrapping the *stock*
implementation.  It is installed with the public API tl.set_backend(instance);
tl.get_backend() still answers "numpy".  At event k the hook may raise a fault (instead
of performing the call), perturb the global RNG, or hand the baton to another sim-thread.
"""
import numpy as np

from .core import HarnessError, use_repo


class SimInterrupt(KeyboardInterrupt):
    pass


class SimMemoryError(MemoryError):
    pass


class SimLinAlgError(np.linalg.LinAlgError):
    pass


class SimCallbackError(Exception):
    pass


FAULT_EXC = {
    "KeyboardInterrupt": SimInterrupt,
    "MemoryError": SimMemoryError,
    "LinAlgError": SimLinAlgError,
    "CallbackError": SimCallbackError,
}

LINALG = {"solve", "svd", "qr", "eigh", "lstsq", "partial_svd"}
ALLOC = {
    "zeros", "ones", "eye", "copy", "tensor", "zeros_like", "concatenate", "stack", "reshape", "arange",
    "kron", "kr", "dot", "matmul", "tensordot", "einsum", "transpose", "moveaxis", "diag", "where",
}  # fmt: skip


def fault_kind_for(name, k):
    """Deterministic choice of the fault that a real deployment meets at this kind of call."""
    if name == "callback":
        return "CallbackError" if k % 2 else "cancel"
    if name in LINALG:
        return "LinAlgError" if k % 2 else "KeyboardInterrupt"
    if name in ALLOC:
        return "MemoryError" if k % 3 else "KeyboardInterrupt"
    return "KeyboardInterrupt"


_P = {}


class Proxy:
    def __init__(self):
        tl = use_repo()
        from tensorly.backend.core import Backend
        from tensorly.backend.numpy_backend import NumpyBackend
        import tensorly.backend as tlb
        import tensorly.tenalg.core_tenalg  # noqa: every backend module is imported before any sim-thread exists
        import tensorly.tenalg.einsum_tenalg  # noqa  (a yield point must never lie inside the import machinery)

        stock_cls = Backend._available_backends["numpy"]
        sim_cls = type("SimBackend", (NumpyBackend,), {}, backend_name="numpy")
        Backend._available_backends["numpy"] = stock_cls
        self.tl = tl
        self.inner = NumpyBackend()
        self.backend = sim_cls()
        self.n = 0
        self.hook = None
        self.names = sorted(set(tlb.BackendManager._functions))
        for name in self.names:
            if name in ("check_random_state", "context", "is_tensor", "shape", "ndim", "finfo", "eps"):
                continue  # pure metadata queries: not fault points
            real = getattr(self.inner, name, None)
            if real is None:
                continue
            setattr(self.backend, name, self._wrap(name, real))
        self.installed = False

    def _wrap(self, name, real):
        P = self

        def wrapped(*a, **k):
            h = P.hook
            if h is not None:
                P.n += 1
                h(P.n, name)
            return real(*a, **k)

        wrapped.__name__ = name
        return wrapped

    def event(self, name):
        """An explicit event (used by simulator-supplied callbacks). Returns the hook's value."""
        h = self.hook
        if h is not None:
            self.n += 1
            return h(self.n, name)
        return None

    def install(self):
        self.tl.set_backend(self.backend)
        if self.tl.get_backend() != "numpy" or self.tl.backend.current_backend() is not self.backend:
            raise HarnessError("proxy backend not installed")
        self.installed = True

    def uninstall(self):
        self.tl.set_backend("numpy")
        self.installed = False

    def begin(self, hook):
        self.n = 0
        self.hook = hook

    def end(self):
        self.hook = None
        return self.n


def get():
    if "p" not in _P:
        _P["p"] = Proxy()
        _P["p"].install()
    return _P["p"]
