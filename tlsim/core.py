"""Shared plumbing for the tensorly deterministic simulator.

Nothing in this module draws randomness of its own: every decision in a run is
drawn from `run_rng(seed, prop, run)`, a PRNG that is a pure function of
(VERIF_SEED, property id, run index).  Logging never draws and never reads a
clock.
"""
import hashlib
import json
import os
import random
import sys
import time

VERIF_DIR = os.path.dirname(os.path.dirname(os.path.abspath(__file__)))
REPO = os.path.abspath(os.environ.get("VERIF_REPO", "/repo"))

EXIT_OK = 0
EXIT_VIOLATION = 1
EXIT_HARNESS = 2


class HarnessError(Exception):
    """A failure of the simulator itself.  Never reported as a VIOLATION."""


def use_repo():
    """Make `import tensorly` resolve to VERIF_REPO's working tree (default /repo)."""
    if sys.path[0] != REPO:
        sys.path.insert(0, REPO)
    import warnings

    warnings.filterwarnings("ignore", category=SyntaxWarning)
    import tensorly  # noqa

    got = os.path.dirname(os.path.dirname(os.path.abspath(tensorly.__file__)))
    if got != REPO:
        raise HarnessError(f"tensorly imported from {got}, expected {REPO}")
    return tensorly


def env_int(name, default):
    v = os.environ.get(name, "")
    try:
        return int(v)
    except ValueError:
        return default


def verif_seed():
    return env_int("VERIF_SEED", 0)


def jobs():
    return max(1, env_int("VERIF_JOBS", os.cpu_count() or 1))


def stable_hash(*parts):
    h = hashlib.blake2b(digest_size=8)
    for p in parts:
        h.update(repr(p).encode())
        h.update(b"\x00")
    return int.from_bytes(h.digest(), "big")


def run_rng(seed, prop, run):
    return random.Random(stable_hash(seed, prop, run))


def digest_obj(obj):
    """Stable digest of a JSON-able object (event logs, histories)."""
    h = hashlib.blake2b(digest_size=16)
    h.update(json.dumps(obj, sort_keys=True, default=repr, separators=(",", ":")).encode())
    return h.hexdigest()


class Counter(dict):
    def inc(self, k, n=1):
        self[k] = self.get(k, 0) + n

    def merge(self, other):
        for k, v in other.items():
            self[k] = self.get(k, 0) + v


def write_json(path, obj):
    os.makedirs(os.path.dirname(path), exist_ok=True)
    tmp = path + ".tmp%d" % os.getpid()
    with open(tmp, "w") as f:
        json.dump(obj, f, indent=1, sort_keys=True, default=repr)
        f.write("\n")
    os.replace(tmp, path)


def load_known_findings():
    path = os.path.join(VERIF_DIR, "known_findings.json")
    if not os.path.exists(path):
        return []
    with open(path) as f:
        return json.load(f).get("findings", [])


def known_for(prop):
    """fingerprint -> entry, only for status == 'known' (fixed entries suppress nothing)."""
    return {
        e["fingerprint"]: e
        for e in load_known_findings()
        if e.get("property") == prop and e.get("status") == "known"
    }


def write_evidence(prop, tier, seed, level, coverage, assumptions, wall_s, violations, extra=None):
    ev = {
        "property_id": prop,
        "tier": tier,
        "seed": seed,
        "level": level,
        "coverage": coverage,
        "assumptions": assumptions,
        "wall_s": round(wall_s, 3),
        "violations": violations,
    }
    if extra:
        ev.update(extra)
    write_json(os.path.join(os.environ.get("VERIF_EVIDENCE_DIR", os.path.join(VERIF_DIR, "evidence")), prop + ".json"), ev)
    return ev


def replay_path(prop, seed, run, tag=""):
    d = os.environ.get("VERIF_REPLAY_DIR", os.path.join(VERIF_DIR, "replays"))
    os.makedirs(d, exist_ok=True)
    return os.path.join(d, f"{prop}-s{seed}-r{run}{tag}.json")


# --------------------------------------------------------------------------- pool


def _worker_init(timeout_s):
    import faulthandler

    faulthandler.enable()
    # a hung worker kills itself loudly instead of hanging the pool forever
    faulthandler.dump_traceback_later(timeout_s, exit=True)
    # importing is state-free; the children forked per chunk inherit the imported package
    use_repo()


def in_child(fn, arg, timeout_s=900):
    """Run fn(arg) in a forked child and return its (pickled) result.

    The calling process never executes library code itself, so every chunk starts from the
    same process state (interpreter + imported modules, no call history): hidden state that
    a library keeps between calls cannot leak from one chunk into another, and a chunk is
    reproducible in a fresh process.
    """
    import pickle
    import select
    import signal

    r, w = os.pipe()
    pid = os.fork()
    if pid == 0:
        code = 0
        try:
            os.close(r)
            try:  # native libraries (LAPACK xerbla) write to fd 1 directly: keep the check's stdout for verdict lines only
                dn = os.open(os.devnull, os.O_WRONLY)
                os.dup2(dn, 1)
                os.close(dn)
            except OSError:
                pass
            try:  # a runaway workload gets a MemoryError instead of inviting the OOM killer
                import resource

                lim = env_int("VERIF_CHILD_MEM_GB", 6) * (1 << 30)
                resource.setrlimit(resource.RLIMIT_AS, (lim, lim))
            except Exception:
                pass
            try:
                payload = pickle.dumps(("ok", fn(arg)))
            except BaseException as e:  # noqa
                import traceback

                payload = pickle.dumps(("err", f"{type(e).__name__}: {e}\n{traceback.format_exc()}"))
                code = 3
            with os.fdopen(w, "wb") as f:
                f.write(payload)
        finally:
            os._exit(code)
    os.close(w)
    chunks = []
    deadline = time.time() + timeout_s
    try:
        while True:
            left = deadline - time.time()
            if left <= 0:
                os.kill(pid, signal.SIGKILL)
                os.waitpid(pid, 0)
                raise HarnessError(f"chunk {arg!r} exceeded {timeout_s}s")
            ready, _, _ = select.select([r], [], [], min(left, 5.0))
            if ready:
                b = os.read(r, 1 << 20)
                if not b:
                    break
                chunks.append(b)
    finally:
        os.close(r)
    os.waitpid(pid, 0)
    data = b"".join(chunks)
    if not data:
        raise HarnessError(f"child for chunk {arg!r} died without a result")
    tag, val = pickle.loads(data)
    if tag == "err":
        raise HarnessError("child failed: " + val)
    return val


def _chunk_entry(args):
    fn, chunk, timeout_s = args
    import faulthandler

    faulthandler.cancel_dump_traceback_later()
    faulthandler.dump_traceback_later(timeout_s + 60, exit=True)
    try:
        return in_child(fn, chunk, timeout_s)
    finally:
        faulthandler.cancel_dump_traceback_later()


def pool_map(fn, chunks, njobs, chunk_timeout_s=600):
    """Run fn(chunk) for each chunk in forked workers; yields results as they complete.

    Uses ProcessPoolExecutor with the fork context, created before any sim-thread
    exists in the parent.  A dead worker raises (BrokenProcessPool) -> HarnessError.
    """
    import concurrent.futures as cf
    import multiprocessing as mp

    if njobs <= 1:
        for c in chunks:
            yield in_child(fn, c, chunk_timeout_s)
        return
    ctx = mp.get_context("fork")
    with cf.ProcessPoolExecutor(
        max_workers=njobs, mp_context=ctx, initializer=_worker_init, initargs=(chunk_timeout_s,)
    ) as ex:
        futs = [ex.submit(_chunk_entry, (fn, c, chunk_timeout_s)) for c in chunks]
        try:
            for f in cf.as_completed(futs):
                yield f.result()
        except cf.process.BrokenProcessPool as e:
            raise HarnessError(f"worker process died: {e}")


class Budget:
    """Wall-clock budget for the *batch*; never consulted for any decision inside a run."""

    def __init__(self, seconds):
        self.t0 = time.time()
        self.seconds = seconds

    def left(self):
        return self.seconds - (time.time() - self.t0)

    def elapsed(self):
        return time.time() - self.t0
