"""Greedy structural minimisation helpers (delta debugging flavour)."""
import copy


def greedy(rec, candidates_fn, test_fn, max_rounds=50, max_tests=4000):
    """Repeat: take the first candidate (smaller record) for which test_fn returns a
    truthy value (the record to continue from), until no candidate works.

    candidates_fn(rec) yields smaller variants; test_fn(variant) -> None | accepted variant.
    """
    import os
    import time

    t_end = time.time() + float(os.environ.get("VERIF_MIN_BUDGET_S", "90"))
    tests = 0
    for _ in range(max_rounds):
        progressed = False
        for cand in candidates_fn(rec):
            tests += 1
            if tests > max_tests or time.time() > t_end:
                return rec, tests
            got = test_fn(cand)
            if got:
                rec = got
                progressed = True
                break
        if not progressed:
            break
    return rec, tests


def ddmin_list(items, test_fn):
    """Classic ddmin over a list: smallest sublist (by chunk removal) keeping test_fn true."""
    n = 2
    items = list(items)
    while len(items) >= 2:
        chunk = max(1, len(items) // n)
        removed = False
        i = 0
        while i < len(items):
            cand = items[:i] + items[i + chunk :]
            if test_fn(cand):
                items = cand
                n = max(n - 1, 2)
                removed = True
            else:
                i += chunk
        if not removed:
            if chunk == 1:
                break
            n = min(len(items), n * 2)
    if len(items) == 1 and test_fn([]):
        return []
    return items


def tree_variants(ops):
    """All one-step reductions of a nested op list: delete an op, or unwrap a `with`."""
    for i, o in enumerate(ops):
        yield ops[:i] + ops[i + 1 :]
        if o.get("op") == "with":
            body = [b for b in o["body"] if b.get("op") != "raise"]
            yield ops[:i] + body + ops[i + 1 :]
            for nb in tree_variants(o["body"]):
                no = copy.copy(o)
                no["body"] = nb
                yield ops[:i] + [no] + ops[i + 1 :]
