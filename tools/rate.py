"""Detection-rate probe: run N runs of a property against VERIF_REPO and count violating runs per fingerprint (no minimisation).
usage: VERIF_REPO=<tree> python tools/rate.py C17 <seed> <nruns>"""
import sys, os, collections
sys.path.insert(0, os.path.dirname(os.path.dirname(os.path.abspath(__file__))))
from tlsim import core, cli
prop, seed, n = sys.argv[1], int(sys.argv[2]), int(sys.argv[3])
mod = cli._mod(prop)
os.environ["VERIF_TIER_INTERNAL"] = "quick"
chunks = [(seed, lo, min(lo + mod.CHUNK, n), 0) for lo in range(0, n, mod.CHUNK)]
per = collections.Counter(); runs = 0; vr = 0
for res in core.pool_map(mod.worker, chunks, core.jobs(), 900):
    per.update(res.get("per_oracle", {})); runs += res["cnt"].get("runs", 0); vr += res["cnt"].get("violating_runs", 0)
print(f"{prop} seed={seed} runs={runs} violating_runs={vr}")
for k, v in per.most_common(200): print(f"   {v:6d} {k}")
