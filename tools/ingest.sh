#!/bin/bash
# tools/ingest.sh <worktree> <id> : confirm a sub-agent's seeded change independently and store it under /verif/seeded/<id>/
# (patch applies to /repo HEAD, pinned baseline passes with it, demo exits 1 with / 0 without). Writes confirm.txt.
set -u
WT=$1; ID=$2; D=/verif/seeded/$ID; mkdir -p $D
cd $WT || exit 2
git diff -- tensorly > $D/patch.diff
cp demo.py $D/demo.py
{
echo "patch lines: $(wc -l < $D/patch.diff)"
git -C /repo apply --check $D/patch.diff && echo "applies_to_repo_head=true" || echo "applies_to_repo_head=false"
( cd $WT && PYTHONPATH=$WT timeout 300 /venv/bin/python demo.py >/dev/null 2>&1; echo "demo_with_change_exit=$?" )
git apply -R $D/patch.diff
( cd $WT && PYTHONPATH=$WT timeout 300 /venv/bin/python demo.py >/dev/null 2>&1; echo "demo_without_change_exit=$?" )
git apply $D/patch.diff
BASELINE_REPO=$WT BASELINE_PYTEST_ARGS="-n 5" PYTHONPATH=$WT /verif/bin/baseline_check /tmp/ingest_$ID.xml
} > $D/confirm.txt 2>&1
cat $D/confirm.txt
